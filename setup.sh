#!/bin/sh
# Build the framework's caches from files on disk only (offline):
#  1. the Kani dependency cache (goto/MIR artefacts of the ~400 dependency crates), ~2.5 min, 1.5 GB
#  2. the native playback cache used to replay counterexamples (cargo kani playback = cargo test with cfg(kani)), ~3 min, 3.4 GB
# Both live under /verif/.cache (git-ignored); they hold build artefacts only, never a copy of the repository sources.
set -e
cd "$(dirname "$0")"
export CARGO_NET_OFFLINE=true
mkdir -p .cache evidence
python3 lib/runner.py --setup
