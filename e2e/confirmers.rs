// @target src/lib.rs
//
// End-to-end confirmers (DESIGN §3 "replay before reporting"): ordinary #[test]s that drive the PUBLIC API
// (SQL through ExecutionContext over real Parquet files) on the concrete inputs behind a known finding.
// They are built only in the native playback build of the scratch overlay (cfg(kani) + cargo test) and are
// run by `tools/e2e <name>`; a confirmer FAILS (panics) when the defect manifests end to end.
#[cfg(all(kani, test))]
mod __verif_e2e {
    use crate::execution::{ExecutionConfig, ExecutionContext};
    use arrow::array::{ArrayRef, Float64Array, Int64Array};
    use arrow::datatypes::{DataType, Field, Schema};
    use arrow::record_batch::RecordBatch;
    use std::sync::Arc;

    fn write_parquet(dir: &std::path::Path, name: &str, batch: &RecordBatch) -> std::path::PathBuf {
        let path = dir.join(name);
        let file = std::fs::File::create(&path).unwrap();
        let mut w = parquet::arrow::ArrowWriter::try_new(file, batch.schema(), None).unwrap();
        w.write(batch).unwrap();
        w.close().unwrap();
        path
    }

    fn rows(ctx: &ExecutionContext, sql: &str) -> Vec<String> {
        let rt = tokio::runtime::Builder::new_multi_thread().enable_all().build().unwrap();
        let res = rt.block_on(ctx.sql(sql)).unwrap_or_else(|e| panic!("query failed: {sql}: {e}"));
        let mut out = Vec::new();
        for b in &res.batches {
            for r in 0..b.num_rows() {
                let mut cells = Vec::new();
                for c in 0..b.num_columns() {
                    cells.push(arrow::util::display::array_value_to_string(b.column(c), r).unwrap());
                }
                out.push(cells.join("|"));
            }
        }
        out.sort();
        out
    }

    fn ctx_with(table: &std::path::Path, pruning: bool, morsel: bool) -> ExecutionContext {
        let cfg = ExecutionConfig::default().with_stats_pruning(pruning).with_morsel_execution(morsel);
        let mut ctx = ExecutionContext::with_config(cfg);
        ctx.register_parquet("t", table).unwrap();
        ctx
    }

    /// C21-null-key-collides-with-minus-one: GROUP BY over a BIGINT key holding NULL and -1.
    #[test]
    fn e2e_c21_null_group_vs_minus_one() {
        let dir = tempfile::tempdir().unwrap();
        let schema = Arc::new(Schema::new(vec![
            Field::new("k", DataType::Int64, true),
            Field::new("g", DataType::Int64, true),
            Field::new("v", DataType::Int64, false),
        ]));
        let k: ArrayRef = Arc::new(Int64Array::from(vec![None, Some(-1), None, Some(-1), Some(7)]));
        let g: ArrayRef = Arc::new(Int64Array::from(vec![Some(1), Some(1), Some(1), Some(1), Some(1)]));
        let v: ArrayRef = Arc::new(Int64Array::from(vec![1, 10, 100, 1000, 5]));
        let batch = RecordBatch::try_new(schema, vec![k, g, v]).unwrap();
        let p = write_parquet(dir.path(), "t.parquet", &batch);
        let want_one = vec!["-1|2|1010".to_string(), "7|1|5".to_string(), "|2|101".to_string()];
        for morsel in [false, true] {
            let ctx = ctx_with(&p, true, morsel);
            let got = rows(&ctx, "SELECT k, COUNT(*), SUM(v) FROM t GROUP BY k");
            let mut want = want_one.clone();
            want.sort();
            assert_eq!(got, want, "GROUP BY k (morsel={morsel}): NULL and -1 must be separate groups");
            let got2 = rows(&ctx, "SELECT k, g, COUNT(*), SUM(v) FROM t GROUP BY k, g");
            let mut want2 = vec!["-1|1|2|1010".to_string(), "7|1|1|5".to_string(), "|1|2|101".to_string()];
            want2.sort();
            assert_eq!(got2, want2, "GROUP BY k, g (morsel={morsel}): NULL and -1 must be separate groups");
        }
    }

    /// the property's own observation point: prune_row_groups on the real footer vs evaluate_expr on the decoded rows
    fn pruned_but_kept(values: Vec<f64>, op: crate::planner::BinaryOp, lit: f64) -> bool {
        use crate::planner::{Column, Expr, ScalarValue};
        let dir = tempfile::tempdir().unwrap();
        let schema = Arc::new(Schema::new(vec![Field::new("x", DataType::Float64, false)]));
        let x: ArrayRef = Arc::new(Float64Array::from(values));
        let batch = RecordBatch::try_new(schema.clone(), vec![x]).unwrap();
        let p = write_parquet(dir.path(), "t.parquet", &batch);
        let pred = Expr::BinaryExpr {
            left: Box::new(Expr::Column(Column::new("x"))),
            op,
            right: Box::new(Expr::Literal(ScalarValue::Float64(ordered_float::OrderedFloat(lit)))),
        };
        let file = std::fs::File::open(&p).unwrap();
        let builder = parquet::arrow::arrow_reader::ParquetRecordBatchReaderBuilder::try_new(file).unwrap();
        let md = builder.metadata().clone();
        let kept_groups = crate::storage::row_group_pruning::prune_row_groups(&md, &schema, Some(&pred));
        let mask = crate::physical::operators::evaluate_expr(&batch, &pred).unwrap();
        let mask = mask.as_any().downcast_ref::<arrow::array::BooleanArray>().unwrap().clone();
        let rows_kept = mask.iter().filter(|b| *b == Some(true)).count();
        eprintln!("x {op:?} {lit:?}: interpreter keeps {rows_kept} row(s), pruning keeps row groups {kept_groups:?}");
        rows_kept > 0 && kept_groups.is_empty()
    }

    /// C05-f64-signed-zero: a row group of -0.0 rows is skipped for predicates the interpreter keeps them under.
    #[test]
    fn e2e_c05_f64_signed_zero() {
        use crate::planner::BinaryOp;
        assert!(!pruned_but_kept(vec![-0.0, -0.0], BinaryOp::Lt, 0.0), "x < 0.0 over [-0.0]: skipped although rows match");
        assert!(!pruned_but_kept(vec![-0.0, -0.0], BinaryOp::NotEq, 0.0), "x <> 0.0 over [-0.0]: skipped although rows match");
    }

    /// C05-f64-nan-literal: a NaN literal makes every min/max comparison false.
    #[test]
    fn e2e_c05_f64_nan_literal() {
        use crate::planner::BinaryOp;
        assert!(!pruned_but_kept(vec![1.0, 2.0], BinaryOp::Lt, f64::NAN), "x < NaN: skipped although rows match");
        assert!(!pruned_but_kept(vec![1.0, 2.0], BinaryOp::GtEq, -f64::NAN), "x >= -NaN: skipped although rows match");
    }

    /// C06-f64-ieee-vs-total-order: compiled predicate vs interpreter on NaN / signed zero.
    #[test]
    fn e2e_c06_compiled_vs_interpreted_f64() {
        use crate::physical::compiled_expr::CompiledPredicate;
        use crate::physical::operators::evaluate_expr;
        use crate::planner::{BinaryOp, Column, Expr, ScalarValue};
        let schema = Arc::new(Schema::new(vec![Field::new("x", DataType::Float64, false)]));
        let x: ArrayRef = Arc::new(Float64Array::from(vec![f64::NAN, -0.0, 0.0, 1.0]));
        let batch = RecordBatch::try_new(schema.clone(), vec![x]).unwrap();
        for (op, lit) in [
            (BinaryOp::Eq, f64::NAN),
            (BinaryOp::Lt, f64::NAN),
            (BinaryOp::Lt, 0.0),
            (BinaryOp::Eq, 0.0),
            (BinaryOp::GtEq, -0.0),
        ] {
            let e = Expr::BinaryExpr {
                left: Box::new(Expr::Column(Column::new("x"))),
                op,
                right: Box::new(Expr::Literal(ScalarValue::Float64(ordered_float::OrderedFloat(lit)))),
            };
            let compiled = CompiledPredicate::compile(&e, &schema).expect("compiles").evaluate(&batch).expect("evaluates");
            let interp = evaluate_expr(&batch, &e).unwrap();
            let interp = interp.as_any().downcast_ref::<arrow::array::BooleanArray>().unwrap().clone();
            assert_eq!(compiled, interp, "x {op:?} {lit:?}: compiled mask must equal the interpreter's");
        }
    }

    /// scripted metastore: answers one request with `Transfer-Encoding: chunked` and the given raw chunked body
    fn chunked_server(body: &'static [u8]) -> String {
        use std::io::{Read, Write};
        let listener = std::net::TcpListener::bind("127.0.0.1:0").unwrap();
        let addr = listener.local_addr().unwrap();
        std::thread::spawn(move || {
            let (mut s, _) = listener.accept().unwrap();
            let mut buf = [0u8; 2048];
            let _ = s.read(&mut buf);
            s.write_all(b"HTTP/1.1 200 OK\r\nTransfer-Encoding: chunked\r\nConnection: close\r\n\r\n").unwrap();
            s.write_all(body).unwrap();
        });
        format!("http://{addr}")
    }

    /// C41-chunk-extension-rejected: a chunk size carrying an extension must decode (RFC 9112 7.1.1).
    #[test]
    fn e2e_c41_chunk_extension_is_ignored() {
        let url = chunked_server(b"5;name=value\r\nhello\r\n0\r\n\r\n");
        let got = crate::metastore::gravitino::http_get(&url, "/x");
        assert_eq!(got.ok().as_deref(), Some(&b"hello"[..]), "chunk extension must be ignored, body decoded");
    }

    /// C41-missing-chunk-crlf-accepted: chunk data not followed by CRLF is malformed framing.
    #[test]
    fn e2e_c41_chunk_without_crlf_is_rejected() {
        let url = chunked_server(b"5\r\nhelloXX0\r\n\r\n");
        let got = crate::metastore::gravitino::http_get(&url, "/x");
        assert!(got.is_err(), "malformed framing accepted: {:?}", got.map(|b| String::from_utf8_lossy(&b).into_owned()));
    }

    /// C41 huge declared size: `size + 2` must not overflow / slice out of range.
    #[test]
    fn e2e_c41_huge_chunk_size_does_not_panic() {
        for body in [&b"ffffffffffffffff\r\nab"[..], &b"fffffffffffffffe\r\nab"[..]] {
            let body: &'static [u8] = Box::leak(body.to_vec().into_boxed_slice());
            let url = chunked_server(body);
            let r = std::panic::catch_unwind(|| crate::metastore::gravitino::http_get(&url, "/x"));
            assert!(r.is_ok(), "decoder panicked on a huge chunk size");
            assert!(r.unwrap().is_err(), "a chunk larger than the response must be rejected");
        }
    }

    /// oracle validation for C05 composition: how does the interpreter compare a BIGINT column with a DOUBLE literal?
    #[test]
    fn e2e_c05_int_column_vs_double_literal_semantics() {
        use crate::planner::{BinaryOp, Column, Expr, ScalarValue};
        let schema = Arc::new(Schema::new(vec![Field::new("c", DataType::Int64, false)]));
        let c: ArrayRef = Arc::new(Int64Array::from(vec![0, -1, 4, 9007199254740993]));
        let batch = RecordBatch::try_new(schema.clone(), vec![c]).unwrap();
        for (op, lit) in [(BinaryOp::LtEq, -0.0f64), (BinaryOp::Lt, 4.5), (BinaryOp::Eq, 9007199254740992.0), (BinaryOp::GtEq, 0.0)] {
            let e = Expr::BinaryExpr {
                left: Box::new(Expr::Column(Column::new("c"))),
                op,
                right: Box::new(Expr::Literal(ScalarValue::Float64(ordered_float::OrderedFloat(lit)))),
            };
            match crate::physical::operators::evaluate_expr(&batch, &e) {
                Ok(m) => eprintln!("ORACLE c {op:?} {lit:?} over [0,-1,4,2^53+1] => {:?}", m.as_any().downcast_ref::<arrow::array::BooleanArray>().unwrap().iter().collect::<Vec<_>>()),
                Err(err) => eprintln!("ORACLE c {op:?} {lit:?} => error {err}"),
            }
        }
    }

    /// C21 candidate: a group whose key is NULL and whose aggregated inputs are all NULL must still be one output row.
    #[test]
    fn e2e_c21_null_key_all_null_inputs_group_exists() {
        let dir = tempfile::tempdir().unwrap();
        let schema = Arc::new(Schema::new(vec![
            Field::new("k", DataType::Int64, true),
            Field::new("v", DataType::Int64, true),
        ]));
        let k: ArrayRef = Arc::new(Int64Array::from(vec![None, Some(5), None]));
        let v: ArrayRef = Arc::new(Int64Array::from(vec![None, Some(1), None]));
        let batch = RecordBatch::try_new(schema, vec![k, v]).unwrap();
        let p = write_parquet(dir.path(), "t.parquet", &batch);
        for morsel in [false, true] {
            let ctx = ctx_with(&p, true, morsel);
            let got = rows(&ctx, "SELECT k, COUNT(v), MAX(v) FROM t GROUP BY k");
            let mut want = vec!["5|1|1".to_string(), "|0|".to_string()];
            want.sort();
            assert_eq!(got, want, "GROUP BY k (morsel={morsel}): the NULL-key group with only NULL inputs must be returned");
        }
    }

    /// C16-content-length-ignored: a peer declares 5 body bytes, sends 2 and closes.
    #[test]
    fn e2e_c16_short_body_is_an_error() {
        use std::io::{Read, Write};
        let listener = std::net::TcpListener::bind("127.0.0.1:0").unwrap();
        let addr = listener.local_addr().unwrap().to_string();
        std::thread::spawn(move || {
            let (mut s, _) = listener.accept().unwrap();
            let mut buf = [0u8; 2048];
            let _ = s.read(&mut buf);
            s.write_all(b"HTTP/1.1 200 OK\r\nContent-Length: 5\r\n\r\nhe").unwrap();
        });
        let rt = tokio::runtime::Builder::new_current_thread().enable_all().build().unwrap();
        let r = rt.block_on(crate::distributed::http_client::get(&addr, "/x", std::time::Duration::from_secs(5)));
        assert!(r.is_err(), "a response cut short of its Content-Length was returned as success: {:?}", r.map(|x| (x.status, x.body)));
    }
}
