#!/bin/bash
# run every registered check of a tier sequentially with the default configuration (what MANIFEST's commands do)
tier=${1:-quick}
cd "$(dirname "$0")/.."
for id in $(python3 -c "import json;print(' '.join(c['property_id'] for c in json.load(open('MANIFEST.json'))['checks']))"); do
  t0=$(date +%s)
  ./check $id --tier $tier > /var/tmp/run-all-$tier-$id.log 2>&1
  rc=$?
  echo "$id rc=$rc $(( $(date +%s) - t0 ))s $(grep -c KNOWN-FINDING /var/tmp/run-all-$tier-$id.log) known-finding lines"
done
