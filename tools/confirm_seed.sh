#!/bin/bash
# Confirm a seeded change in the scratch worktree WT: (1) it applies and compiles, (2) the existing lib tests have the
# same outcomes as on the unchanged tree, (3) its demonstration fails with the change and passes without it.
# usage: confirm_seed.sh <seed-dir> <kind: tests|lib> <demo test filter or tests-file stem> [extra integration test targets...]
set -u
WT=${WT:-/tmp/wt-C05}
SEED=$1; KIND=$2; NAME=$3; shift 3
cd $WT || exit 1
git checkout -q -- . ; git clean -fdq tests src
export CARGO_NET_OFFLINE=true
outcomes() { grep -E "^test .* \.\.\. (ok|FAILED|ignored)" | sort; }
if [ ! -f /tmp/seed-baseline-lib.txt ]; then
  cargo test --offline --lib --no-fail-fast 2>&1 | outcomes > /tmp/seed-baseline-lib.txt
fi
place_demo() {
  if [ "$KIND" = tests ]; then cp $SEED/demo.rs tests/$NAME.rs
  elif [ "$KIND" = append ]; then cat $SEED/demo.rs >> ${LIBFILE}
  else python3 - "$SEED/demo.rs" "${LIBFILE:-src/metastore/gravitino.rs}" <<'PY'
import sys,re
p=sys.argv[2]
s=open(p).read()
demo=open(sys.argv[1]).read()
i=s.rstrip().rfind('}')
open(p,'w').write(s[:i]+demo+"\n}\n")
PY
  fi
}
run_demo() {
  if [ "$KIND" = tests ]; then cargo test --offline --test $NAME 2>&1 | grep -E "^test result|^test .*FAILED|error(\[|:)" | head -8
  else cargo test --offline --lib $NAME -- --test-threads=1 2>&1 | grep -E "^test result|^test .*FAILED|error(\[|:)" | head -8; fi
}
echo "## with the change"
git apply $SEED/patch.diff || { echo "PATCH DOES NOT APPLY"; exit 1; }
cargo test --offline --lib --no-fail-fast 2>&1 | outcomes > /tmp/seed-mut-lib.txt
if diff -q /tmp/seed-baseline-lib.txt /tmp/seed-mut-lib.txt >/dev/null; then echo "existing lib tests: same outcomes as baseline ($(grep -c ' ok$' /tmp/seed-mut-lib.txt) ok)"; else echo "EXISTING LIB TESTS DIFFER:"; diff /tmp/seed-baseline-lib.txt /tmp/seed-mut-lib.txt | head; fi
for t in "$@"; do echo "integration target $t:"; cargo test --offline --test $t 2>&1 | grep -E "^test result" ; done
place_demo; echo "demo WITH change:"; run_demo
git checkout -q -- . ; git clean -fdq tests
echo "## without the change"
place_demo; echo "demo WITHOUT change:"; run_demo
git checkout -q -- . ; git clean -fdq tests
