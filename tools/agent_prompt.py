#!/usr/bin/env python3
"""Prints the prompt given to an independent sub-agent that seeds a property-breaking change.
usage: agent_prompt.py <ID> <worktree>  -- the agent gets ONLY the property text and its scratch worktree."""
import json, sys
pid, wt = sys.argv[1], sys.argv[2]
p = [json.loads(l) for l in open('/verif/properties.jsonl') if json.loads(l)['id'] == pid][0]
print(f"""You are helping to evaluate a verification framework for a Rust project (an analytical SQL engine on Arrow, crate `query_engine`). Your job is to play the role of a developer who introduces a subtle bug.

You have your own scratch git worktree of the project at {wt} (work ONLY inside it; never touch /repo or /verif, and do not read anything under /verif). There is no network and DISK SPACE IS TIGHT: do NOT copy /repo/target; export CARGO_TARGET_DIR=/tmp/agent-target-{pid} for every cargo command (your own build directory; the first build takes several minutes), always pass --offline, prefix heavy cargo commands with `nice -n 15`, and DELETE /tmp/agent-target-{pid} when you are finished. Keep command output short (pipe long test output through tail/grep).

Here is a semantic property the project is supposed to satisfy:

  id: {p['id']}
  title: {p['title']}
  statement: {p['statement']}
  quantified over: {p['quantifier']['text']}
  code it is anchored in: {json.dumps(p['anchors'].get('files'))}
  mechanisms: {json.dumps(p['anchors'].get('mechanism'))}

TASK: produce TWO independent, realistic source changes (mutations) to the project, each of which BREAKS this property while
  (a) still compiling,
  (b) still passing the project's existing test suite unchanged: run `cargo test --offline --lib --no-fail-fast` and the integration test targets under tests/ that touch the code you changed, on the unchanged tree AND with your change, and compare per-test outcomes (about 36 lib tests and several integration targets fail on the unchanged tree only because the data/ fixtures are absent -- that is expected, do not try to fix it; do not run the whole workspace suite, it is slow), and
  (c) needing something SPECIFIC to manifest -- an unusual input or boundary value, a particular interleaving, a multi-step sequence, or two cooperating sites that each look fine alone -- NOT something ordinary use would expose at once.
Make them the kind of plausible slip or "optimisation" a real developer could commit (off-by-one at a boundary, wrong operator in one arm, a dropped check, a changed rounding/cast, a reordered update, a relaxed memory/ordering/condition, ...). The two changes must be at different places / of different kinds. Each change should be small (a few lines).

For EACH change i in {{1,2}} create the directory {wt}/MUT{{i}}/ containing:
  - patch.diff   : `git diff` of ONLY that change against the worktree's HEAD (it must apply with `git apply` to a clean checkout),
  - demo.rs (or demo.sh): a demonstration -- a Rust test (say where to put it, e.g. appended to which file's `mod tests`, or a file under tests/) or a small script -- that FAILS with the change applied and PASSES without it. Actually run it both ways.
  - README.md    : which line(s) changed and why it breaks the property; exactly what is needed for the bug to manifest; the exact commands you ran (build, existing tests, demo with/without the change) and their outcomes.
Leave the worktree's tracked files at HEAD when you finish (git checkout -- . ; untracked MUT1/ MUT2/ stay). Do not commit. Report briefly what you produced.""")
