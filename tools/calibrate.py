#!/usr/bin/env python3
"""Development helper: find per-loop unwinding bounds for one harness by iterative deepening.
Starts from `--unwind START` for every loop, runs CBMC, reads which unwinding assertions failed, doubles exactly those
loops' bounds, repeats.  Prints an `// @unwindset` line (patterns of the form <function-substring>#<loop index>).
usage: calibrate.py <lane> <ID> <harness-name> [start=2] [timeout=600]
The result is pasted into the harness file; at check time the runner resolves the patterns against the CURRENT goto
binary and unwinding assertions stay on, so a stale bound can only make a check inconclusive, never unsound."""
import json, os, re, subprocess, sys
sys.path.insert(0, os.path.join(os.path.dirname(os.path.abspath(__file__)), "..", "lib"))
lane, pid, hname = sys.argv[1], sys.argv[2], sys.argv[3]
start = int(sys.argv[4]) if len(sys.argv) > 4 else 2
tmo = int(sys.argv[5]) if len(sys.argv) > 5 else 600
os.environ["VERIF_OVERLAY"] = f"/var/tmp/qe-lane{lane}/overlay"
os.environ["VERIF_KANI_TARGET"] = f"/var/tmp/qe-lane{lane}/kani-target"
os.environ["VERIF_LOCK"] = f"/var/tmp/qe-lane{lane}/lock"
import runner as R
files, allh = R.load_property(pid)
h = [x for x in allh if x.name == hname][0]
build = R.Build(h.mode)
R.make_overlay(files)
# the global bound is the harness's own #[kani::unwind(N)] attribute: rewrite it to START in the overlay copy
tp = os.path.join(R.OVERLAY, h.target)
txt = open(tp).read()
i = txt.rindex(f"fn {h.name}(")
j = txt.rindex("#[kani::unwind(", 0, i)
k = txt.index(")]", j)
txt = txt[:j] + f"#[kani::unwind({start})]" + txt[k + 2:]
open(tp, "w").write(txt)
build.prepare()
work = f"/var/tmp/qe-lane{lane}/calib"
os.makedirs(work, exist_ok=True)
# loop table
h.meta.pop("unwindset", None); h.meta.pop("unwindloop", None)
cmd = ["cargo", "kani"] + build.lib_flag + ["-Z", "stubbing", "-Z", "unstable-options", "--only-codegen", "--target-dir", build.kani_target, "--exact", "--harness", h.full]
R.run_capped(cmd, build.cwd, 30000000, 1500, os.path.join(work, "codegen.log"))
cands = []
for root, _d, fns in os.walk(os.path.join(build.kani_target, "kani")):
    for fn in fns:
        if fn.endswith(h.name + ".out") and not fn.endswith(".symtab.out"):
            cands.append(os.path.join(root, fn))
gb = max(cands, key=os.path.getmtime)
out = subprocess.run(["goto-instrument", "--show-loops", gb], capture_output=True, text=True).stdout.splitlines()
loops = {}
for i, l in enumerate(out):
    m = re.match(r"^Loop (\S+):$", l)
    if m:
        fm = re.search(r" function (.*)$", out[i + 1])
        loops[m.group(1)] = fm.group(1).strip() if fm else ""
bounds = {}
for it in range(120):
    us = ",".join(f"{k}:{v}" for k, v in bounds.items())
    oj = os.path.join(work, "out.json")
    if os.path.exists(oj): os.unlink(oj)
    cmd = ["cargo", "kani"] + build.lib_flag + ["-Z", "stubbing", "-Z", "unstable-options", "--target-dir", build.kani_target, "--exact",
           "--harness", h.full, "--output-format", "terse", "--harness-timeout", f"{tmo}s", "--export-json", oj,
           ] + (["--cbmc-args", "--unwindset", us] if us else [])
    R.run_capped(cmd, build.cwd, 30000000, tmo + 600, os.path.join(work, f"run{it}.log"))
    if not os.path.exists(oj):
        print("no result (time-out or build error) at iteration", it); break
    d = json.load(open(oj))
    res = d["verification_results"]["results"][0]
    fails = [c for c in res.get("checks", []) if c.get("category") == "unwind" and c.get("status") == "Failure"]
    other = [c for c in res.get("checks", []) if c.get("category") not in ("unwind", "cover") and c.get("status") == "Failure"]
    print(f"iter {it}: status={res.get('status')} unwind-failures={len(fails)} other-failures={len(other)} time={res.get('duration_ms')}ms", flush=True)
    if not res.get("checks"):
        print("timed out"); break
    if not fails:
        break
    for c in fails:
        n = re.search(r"loop (\d+)", c["description"]).group(1)
        fn = c["function"]
        ids = [lid for lid, f in loops.items() if f == fn and lid.endswith("." + n)] or [lid for lid, f in loops.items() if fn in f and lid.endswith("." + n)]
        if not ids and "::" not in fn:
            ids = [f"{fn}.{n}"]          # C library builtins (memcmp, memcpy ...) are linked in by CBMC itself
            loops[ids[0]] = fn
        if not ids:
            print("   UNMAPPED:", fn[:160], "| loop", n, flush=True)
        for lid in ids:
            bounds[lid] = bounds.get(lid, start) * 2
spec = []
for lid, v in sorted(bounds.items(), key=lambda kv: loops[kv[0]]):
    fn = loops[lid]
    short = re.sub(r"<[^<>]*>", "", fn)          # drop generic args
    short = re.sub(r"<[^<>]*>", "", short).split("::")
    short = "::".join(short[-2:]).replace(" ", "")
    spec.append(f"{short}#{lid.rsplit('.',1)[1]}:{v}")
print(f"#[kani::unwind({start})]")
print("// @unwindset " + " ".join(spec))
