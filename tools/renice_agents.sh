#!/bin/bash
# development helper: keep the mutation agents' builds from starving CBMC
while true; do
  for p in $(pgrep -f "agents-target|wt-C[0-9]+" 2>/dev/null); do renice -n 19 -p $p >/dev/null 2>&1; done
  for p in $(pgrep -x rustc; pgrep -x cc; pgrep -x ld); do
     if tr '\0' ' ' < /proc/$p/cmdline 2>/dev/null | grep -q "agents-target"; then renice -n 19 -p $p >/dev/null 2>&1; fi
  done
  for p in $(pgrep -x cbmc); do renice -n -5 -p $p >/dev/null 2>&1; done
  sleep 20
done
