#!/usr/bin/env python3
"""Regenerates /verif/MANIFEST.json from the tables below (claimed checks + not-applicable reasons).
Run after registering or withdrawing a property; validates against /root/.vp/MANIFEST.schema.json when jsonschema
is importable."""
import json
import os
import sys

VERIF = os.path.dirname(os.path.dirname(os.path.abspath(__file__)))

TECH = "bounded symbolic execution of the real Rust functions with Kani 0.68 / CBMC 6.11 (SAT: CaDiCaL); counterexamples replayed natively"

# id -> (level text, level note, design ref)
CLAIMED = {}

def claim(pid, text, note, ref):
    CLAIMED[pid] = (text, note, ref)


claim("C33",
      "Thread-modular bounded model checking of the real MemoryPool/MemoryReservation code: the four atomic methods are "
      "stubbed so that an arbitrary environment (any number of other threads, summarised by the pool invariant) acts before "
      "every atomic access; one operation of the thread under test per harness from an arbitrary valid state, so histories "
      "of any length follow by induction on the invariant. Decided for all sizes/limits (usize), <= 3 lost CAS races.",
      "Trusted: Kani/CBMC, sequentially consistent atomics (CBMC's model), the environment summary (word == mine + others, "
      "others < 2^62, no wrap). Counterexamples are interleavings and are not natively replayable; the trace values are written out.",
      "DESIGN.md §4/C33")
claim("C05",
      "Bounded model checking of the real statistics kernels (check_i64_stats, check_i32_stats, check_f64_stats, eval_range*, "
      "flip_op) over ALL integer / double min, max, value, literal and the six comparison operators: a row the interpreter "
      "keeps is never in a skipped row group; and of the whole decision path in a scratch crate that compiles the real "
      "row_group_pruning.rs against shimmed footer/schema containers (mode S): check_comparison, definite_comparison, NOT / AND / OR / "
      "BETWEEN / IN composition and prune_row_groups against three-valued row semantics, for one BIGINT column and literal kinds "
      "BIGINT/INTEGER/DATE/TIMESTAMP/DOUBLE: a kept row is never skipped, the filter is elided only if the predicate is TRUE for every row.",
      "Oracle = row-level comparison semantics of the interpreter written in the harness (exact integers after widening; IEEE-754 "
      "totalOrder for doubles). Assumes the Parquet writer contract (min <= v <= max, statistics non-NaN). Callers (morsel reader, "
      "streaming scan, shard scan) are outside.",
      "DESIGN.md §4/C05")
claim("C26",
      "Bounded model checking of the real frame_range for ROWS frames: for every admitted bound pair, every offset k in u64, "
      "every partition [ps,pe) with pe <= 8 and every row, the returned range is exactly the SQL frame computed in mathematical "
      "integers, lies inside the partition, and no arithmetic overflows. Partial: RANGE frames and the window functions "
      "themselves run on Arrow arrays and are outside.",
      "Oracle = SQL frame definition in i128. Trusted: Kani/CBMC. Partition length bounded by 8 (the arithmetic only clamps against ps/pe).",
      "DESIGN.md §4/C26")

claim("C02",
      "Bounded model checking of the constant folder's real scalar evaluators (eval_int64, eval_bool, eval_binary): for all i64 "
      "operands, +,- are exact or not folded (never wrapped), comparisons are the integer order, / and % never panic (i64::MIN / -1 "
      "included) and are not folded on a zero divisor; a NULL operand or operands of different kinds are never folded to a value; "
      "booleans fold by two-valued AND/OR/=/<>; and of the real recursive fold_expr on AND/OR over {TRUE, FALSE, NULL} literals (all 18 "
      "expressions) and over a column and a literal (12 expressions): every literal or column the folder produces is the Kleene result "
      "for every run-time value (NULL AND FALSE = FALSE, NULL OR TRUE = TRUE, c AND NULL left alone). Partial: the EXECUTOR's row-level 3VL "
      "(Arrow boolean kernels) is outside CBMC's reach and NOT decided -- which is where the statement's own example lives.",
      "Oracle = SQL scalar semantics in i128 / two-valued logic. Thorough tier adds exactness of *, /, % on reduced widths. LIKE is under C36.",
      "DESIGN.md §4/C02")
claim("C11",
      "Bounded model checking of the decidable kernels of split enumeration: target_split_bytes for ALL table sizes (u64) at node counts "
      "{0,1,2,3,5,8,16,64} (clamps, one-split-per-node floor, exact ideal between clamps, no overflow / division by zero); the digest: "
      "independent of the mount path, and changed by any single-byte change of a footer-derived field; and the COVERAGE statement on the real "
      "pass-2 block of enumerate_parquet, cut verbatim out of the working tree on every run (mode S:cut) with the row-group inventory as a "
      "symbolic parameter: for a row group of 1..=3 rows and 0..=2^40 bytes in a table of up to 2^46 bytes on 1/8/64 nodes, of 1..=3 rows and "
      "0..=255 bytes in a small table on 3/5 nodes, of 1..=4 rows / 0..=63 bytes and 1..=5 rows / 0..=31 bytes on 5 nodes, 1..=5 rows / 0..=255 bytes on 8 nodes, and for a whole table of "
      "two row groups (1..=2 rows, 0..=63 bytes each) on 3 nodes, the emitted splits are non-empty, contiguous from row 0, cover every row "
      "exactly once, number at most `rows`, their bytes sum exactly to the row group's (hence to the table's), and nothing else is emitted. "
      "Partial: pass 1 (footers through the metadata cache), the two canonical sorts (file order / mount independence of the split list) and "
      "larger row counts are NOT decided.",
      "Oracle stated with multiplications only for the target (division by a symbolic divisor did not finish). Mode S:cut trusts a 40-line "
      "fixed-capacity stand-in for std's Vec (with_capacity/push/len/iteration) and a zero-sized token for names/paths; every other line is "
      "the working tree's. Multi-byte digest collisions are not excluded (64-bit FNV).",
      "DESIGN.md §4/C11")
claim("C21",
      "Bounded model checking of the morsel path's accumulator algebra (AccumulatorState new/update/update_i64/merge/finalize): COUNT and SUM "
      "over 3 inputs each NULL or BIGINT, any morsel boundary, typed and ScalarValue paths -- COUNT counts non-NULL inputs, SUM is NULL iff "
      "none and exact otherwise; slot_has_data never drops the global slot or a slot with a non-NULL key; raw group keys are injective on "
      "integers. One KNOWN FINDING is pinned by its own harness: the raw key of a NULL grouping value equals that of -1. Partial: hash, "
      "vectorized, spilled paths, COUNT(DISTINCT) and MIN/MAX/AVG (thorough tier only) are Arrow- or clone-bound.",
      "Oracle = SQL aggregate definitions in integers; |x| < 2^40 so SUM cannot overflow. The finding is confirmed end to end (GROUP BY over Parquet: e2e_c21_null_group_vs_minus_one).",
      "DESIGN.md §4/C21")
claim("C38",
      "Bounded model checking of the real slice kernels dot and l2_sq in the exact-integer regime: dimension 9 (full 8-lane chunk + "
      "remainder) with components in [-2,2], dimension 3 with components in [-15,15]: the result equals the integer formula. Thorough: "
      "dimension 17 (two chunks, lane accumulators add) and norm. Partial: general floats (tolerance), NULL rows, slicing and dimension "
      "mismatch (Arrow FixedSizeListArray) are outside.",
      "Small component ranges because float-vs-integer multiplier equivalence is SAT-hard (measured). Trusted: CBMC's IEEE-754 encoding.",
      "DESIGN.md §4/C38")
claim("C41",
      "Bounded model checking of the real dechunk on semi-concrete wire images (concrete framing shape, symbolic payload bytes / digits): "
      "round trip of every 3-byte body at every split point, chunk extensions ignored, hex sizes in either case, every truncation of a "
      "declared chunk rejected, chunk data not followed by CRLF rejected, 16- and 17-digit sizes (>= 2^60, >= 2^64) rejected without "
      "overflow or panic.",
      "Reference = a 10-line chunked encoder in the harness. Bodies <= 3 bytes, <= 2 chunks; http_get's socket handling is outside (covered once by native e2e confirmers).",
      "DESIGN.md §4/C41")

claim("C06",
      "Bounded model checking of one chunk step of the real compiled-predicate evaluator (CompiledPredicate::eval_chunk) over real 1-row "
      "Arrow arrays: for Int64, Int32 and Date32 columns every comparison operator, literal on either side, yields the interpreter's mask "
      "bit for ALL values; for Float64 the same outside the region where IEEE and totalOrder disagree. That region (a NaN operand, two "
      "zeros) is a KNOWN FINDING pinned by its own harness: the compiled mask differs from the interpreter's. A four-instruction program "
      "[cmp, cmp, AND|OR, NOT] is decided as well. Partial: f64 arithmetic instructions, null propagation, chunk boundaries / bit packing in "
      "`evaluate` and the Compiler itself are outside (not finished within caps or Arrow-bound).",
      "Programs are built directly in the shapes the compiler emits. Oracle = arrow-ord cmp semantics (exact integers; totalOrder for floats), "
      "validated natively by e2e_c06_compiled_vs_interpreted_f64.",
      "DESIGN.md §4/C06")
claim("C16",
      "Bounded model checking of the real parse_response on semi-concrete wire images: a response cut at every offset inside its head is an "
      "error (quick tier, two harnesses); thorough tier: a complete response returns status, success flag and exactly the body byte that "
      "followed the header block, and a body shorter than its Content-Length is an "
      "error (defect found, repaired in 8e20dd1). Partial: one header, bodies <= 1 byte; sockets, time-outs and hangs (tokio) are outside.",
      "format! in error paths is stubbed (message text irrelevant). Trusted: Kani's String/Vec models.",
      "DESIGN.md §4/C16")
claim("C29",
      "Panic-freedom (Kani's arithmetic-overflow, bounds, unwrap, unreachable, division checks) of the SQL-reachable scalar kernels that CBMC "
      "can encode, re-running harnesses of C02 (folder evaluators), C05 (statistics kernels), C21 (accumulators), C26 (frame bounds for every "
      "u64 offset), C36 (LIKE): none panics for any input within the stated bounds. Partial, and small relative to the statement: parser, "
      "binder, planner, stack depth and hangs are not encodable and NOT claimed.",
      "Only Kani's own checks count for C29; the owners' functional assertions are ignored in these re-runs.",
      "DESIGN.md §4/C29")
claim("C36",
      "Bounded model checking of LIKE: the real general matcher like_match equals the textbook LIKE definition for all texts over {a,b,c} "
      "and patterns over {a,b,%,_} with text length <= 3 and pattern length <= 3 (text 3 x pattern 0/1 thorough). The per-batch fast path "
      "(classify_like + str::contains/starts_with/ends_with) did not finish within the caps (std's two-way searcher) and is NOT claimed."
      " Partial: every other scalar function takes/returns Arrow arrays (regex, chrono, serde_json, sha2 ...) "
      "and is NOT claimed.",
      "Oracle = dynamic-programming definition of LIKE in the harness. ASCII only; escapes outside.",
      "DESIGN.md §4/C36")
claim("C42",
      "Bounded model checking of the real workers_for over all usize pairs: result in [1, max(pool,1)], never above max(work,1), exactly "
      "min(work, pool) where defined, monotone. Partial: parse_cpulist is NOT claimed (a one-byte input did not finish in 420 s).",
      "Trusted: Kani/CBMC.",
      "DESIGN.md §4/C42")

# checks listed here are registered in MANIFEST.json; a claim above that is not listed is pending
REGISTERED = ["C02", "C05", "C06", "C11", "C16", "C21", "C26", "C29", "C33", "C36", "C38", "C41", "C42"]

NOT_APPLICABLE = {
    "C01": "whole pipeline parse->bind->optimise->plan->execute over Arrow batches with DuckDB as oracle: async, Arrow kernels, HashMap-heavy binder; no bounded kernel carries the claim (DESIGN §5).",
    "C03": "every rule rewrites LogicalPlan trees keyed by HashMap<String,_>/string schemas; HashMap<String,_> and recursive functions over Expr are out of CBMC's reach even at depth 1 (measured, DESIGN §1/§5).",
    "C04": "Parquet readers, row-group/morsel scheduling, rayon: file I/O and threads; nothing symbolic execution can encode.",
    "C07": "batching/partitioning/thread-count independence of async operators over Arrow batches; hash partitioning hashes Arrow-extracted keys.",
    "C08": "spill decisions are inline in async operators that write and re-read Parquet files.",
    "C09": "the partial/final split is a rewrite over sqlparser ASTs to SQL text executed by whole engines; equivalence would need a hand-written SQL semantics, i.e. a model, not the code.",
    "C10": "fault handling lives in async scatter code over a transport trait, hyper and IPC decoding.",
    "C12": "assign_lpt sorts symbolic indices with std's sort_by/sort_by_key through a comparator that indexes Vec<Split> (String fields) at symbolic positions: 3 splits x 2 nodes did not leave symbolic execution in 40 min, 2 x 2 not in 15 min; Kani 0.68 cannot stub <[T]>::sort_by (DESIGN §0).",
    "C13": "shard scans are Parquet reads with RowSelection (file I/O); the arithmetic premises are covered under C11/C12.",
    "C14": "the digest comparison is one branch inside an async fn that needs an ExecutionContext and footers.",
    "C15": "the view is a BTreeMap<String,PeerRecord> diffed through HashSet<String> with DNS and getifaddrs; two BTreeMap<String,_> inserts already exceed 40 GB in CBMC (measured).",
    "C17": "Avro manifests, directory listings, file modification times: I/O-bound.",
    "C18": "statistics are accumulated inline in a function that opens every file; no separable kernel.",
    "C19": "freshness is decided by filesystem metadata (mtime/len) equality: file-system state is not encodable.",
    "C20": "multi-process file creation/rename races: outside Kani (no threads, no file system).",
    "C22": "join semantics are implemented over Arrow batches, hashbrown tables and async build/probe phases.",
    "C23": "decorrelation rewrites plan trees; subquery execution is whole-engine.",
    "C24": "set operations are planned as Arrow-level distinct/semi/anti operators.",
    "C25": "the LIMIT/OFFSET arithmetic (LimitState::take_from) cannot be separated from RecordBatch: slicing/dropping even a zero-column batch explores the drop glue of Arc<Schema> (hashbrown, recursive Field/DataType) -- no result in 15 min; ORDER BY itself is Arrow lexsort (DESIGN §0).",
    "C27": "grouping-set expansion happens in the binder over sqlparser ASTs and plan nodes.",
    "C28": "CTE scoping lives in binder symbol tables (HashMap<String,_>).",
    "C30": "schema agreement needs a planned and executed query.",
    "C31": "plan well-formedness over all rules needs bound plans (binder + catalog).",
    "C32": "join reordering is a DP over HashMap/HashSet<String>-indexed relations with f64 costs on plan trees.",
    "C34": "tonic/gRPC, serde_json tickets, Arrow IPC encoding.",
    "C35": "the decision is inline in an async fn over shared node state, membership and a tokio runtime; encoders are Arrow writers.",
    "C37": "every function takes or returns Arrow arrays and calls Arrow kernels (out of reach even at length 1, measured).",
    "C39": "generator = ChaCha RNG loops proportional to the scale factor producing Arrow batches.",
    "C40": "quoting/escaping is inlined behind ArrayRef access and Arrow's display formatter.",
    "C43": "the k-NN rewrite matches plan shapes; execution is Arrow FixedSizeList + sort.",
    "C44": "VALUES is bound and planned into Arrow batches by binder and planner.",
    "C45": "column collection walks LogicalPlan/Expr into BTreeMap<String,BTreeSet<String>> against provider schemas.",
}

# properties whose harnesses exist but are not yet registered (registered only once conclusive on the unchanged tree)
PENDING = {
}


def main():
    props = [json.loads(l)["id"] for l in open(os.path.join(VERIF, "properties.jsonl"))]
    checks = []
    for pid in props:
        if pid in CLAIMED and pid in REGISTERED:
            text, note, ref = CLAIMED[pid]
            checks.append({
                "property_id": pid,
                "quick_cmd": f"./check {pid} --tier quick",
                "thorough_cmd": f"./check {pid} --tier thorough",
                "evidence_file": f"/verif/evidence/{pid}.json",
                "replay_cmd_template": f"./check {pid} --replay {{path}}",
                "engine": "kani-overlay",
                "level_claimed": {"category": "model_checking", "text": text, "design_ref": ref},
                "level_note": note,
                "technique": TECH,
            })
    na = []
    for pid in props:
        if pid in CLAIMED and pid in REGISTERED:
            continue
        reason = NOT_APPLICABLE.get(pid) or PENDING.get(pid)
        if not reason:
            raise SystemExit(f"{pid}: neither claimed nor given a not-applicable reason")
        na.append({"property_id": pid, "reason": reason})
    manifest = {
        "version": 1,
        "setup_cmd": "./setup.sh",
        "hooks": {
            "guard": "none -- no source hooks: harness modules are appended to a scratch copy of /repo's working tree under #[cfg(kani)] (DESIGN §2.1)",
            "enable": "cargo kani --lib -Z stubbing in the scratch overlay (cfg(kani) is set by Kani's compiler only)",
            "baseline_off_cmd": "cd /repo && cargo test --workspace --no-fail-fast --offline",
            "source_commits": [],
            "add_only": True,
        },
        "engines": [{
            "name": "kani-overlay",
            "path": "/verif/lib/runner.py",
            "serves_properties": [c["property_id"] for c in checks],
            "kind_free_text": "solver-based bounded model checking: Kani 0.68 compiles the real crate (scratch overlay of /repo's working tree + appended #[cfg(kani)] harness modules) to goto programs, CBMC 6.11 executes them symbolically, CaDiCaL decides; unwinding assertions on; vacuity witnesses (kani::cover!) required; counterexamples replayed natively with cargo kani playback before being reported",
        }],
        "checks": checks,
        "not_applicable": na,
        "notes": ("Exit codes of ./check: 0 held within the stated bounds (KNOWN-FINDING lines possible), 1 VIOLATION (reproduced "
                  "counterexample not listed in known_findings.txt), 2 INCONCLUSIVE (build error, time-out, memory cap, failed unwinding "
                  "assertion, unsatisfied vacuity witness, non-reproducing counterexample). Fix commits in /repo: see known_findings.txt "
                  "`fixed:` lines."),
    }
    out = os.path.join(VERIF, "MANIFEST.json")
    with open(out, "w") as f:
        json.dump(manifest, f, indent=1)
        f.write("\n")
    try:
        import jsonschema
        jsonschema.validate(manifest, json.load(open("/root/.vp/MANIFEST.schema.json")))
        print("MANIFEST.json valid;", len(checks), "checks,", len(na), "not applicable")
    except ImportError:
        print("MANIFEST.json written (jsonschema not importable here);", len(checks), "checks,", len(na), "not applicable")


if __name__ == "__main__":
    main()
