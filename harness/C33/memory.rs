// @target src/execution/memory.rs
//
// Thread-modular check of MemoryPool (DESIGN §4/C33).  Kani has no threads; every pool operation is a
// sequence of atomic read-modify-writes on ONE word, so any concurrent execution is an interleaving of
// those steps.  The four atomic methods the pool uses are replaced (kani::stub) by wrappers that first
// let the ENVIRONMENT (all other threads, any number) run, then perform the real effect on the word.
//
// Environment = most general one consistent with the pool invariant
//        word == MINE + OTHERS            (MINE: applied contribution of the thread under test,
//                                          OTHERS: bytes held by all other threads)
// i.e. before every atomic access OTHERS is havocked and the word re-established.  Every OTHERS value
// is reachable in the real system (other threads may call the unconditional `allocate`), and that the
// operations of *any* thread keep this invariant is exactly what the harnesses prove for the thread
// under test (assume/guarantee, one operation per harness => histories of any length by induction).
#[cfg(kani)]
mod __verif_c33 {
    use super::*;
    use std::sync::atomic::{AtomicUsize, Ordering};

    static mut MAX: usize = 0;
    static mut MINE: usize = 0; // ghost: net bytes this thread has applied to the word
    static mut OTHERS: usize = 0; // ghost: bytes held by the environment
    static mut GRANT_OVER: bool = false; // a successful CAS wrote a value > max (or a wrapped sum)
    static mut UNDERFLOW: bool = false; // a fetch_sub took more than the word held
    static mut CAS_FAILS: u32 = 0;
    static mut RETRY_BOUND: u32 = 0;
    static mut LAST_SEEN: usize = 0; // value most recently returned to the thread under test
    static mut ATOMIC_STEPS: u32 = 0;

    const HALF: usize = 1usize << 62;

    unsafe fn env_step(p: *mut usize) {
        // interference is switched off once the retry bound is used up (lock-freedom, not wait-freedom:
        // under unbounded interference the CAS loop has no bound; stated in DESIGN §4/C33)
        if CAS_FAILS >= RETRY_BOUND {
            return;
        }
        let o: usize = kani::any();
        // other threads' holdings are bounded by physical memory: the total never wraps the word
        kani::assume(o < HALF && MINE.checked_add(o).is_some());
        OTHERS = o;
        *p = MINE.wrapping_add(OTHERS);
    }

    fn stub_load(a: &AtomicUsize, _o: Ordering) -> usize {
        unsafe {
            let p = a.as_ptr();
            env_step(p);
            ATOMIC_STEPS += 1;
            LAST_SEEN = *p;
            *p
        }
    }

    fn stub_cas_weak(a: &AtomicUsize, current: usize, new: usize, _s: Ordering, _f: Ordering) -> std::result::Result<usize, usize> {
        unsafe {
            let p = a.as_ptr();
            env_step(p);
            ATOMIC_STEPS += 1;
            let v = *p;
            let spurious: bool = kani::any();
            if v == current && !(spurious && CAS_FAILS < RETRY_BOUND) {
                *p = new;
                if new > MAX || new < current {
                    GRANT_OVER = true;
                }
                MINE = MINE.wrapping_add(new.wrapping_sub(current));
                Ok(v)
            } else {
                CAS_FAILS += 1;
                LAST_SEEN = v;
                Err(v)
            }
        }
    }

    fn stub_fetch_add(a: &AtomicUsize, val: usize, _o: Ordering) -> usize {
        unsafe {
            let p = a.as_ptr();
            env_step(p);
            ATOMIC_STEPS += 1;
            let v = *p;
            *p = v.wrapping_add(val);
            MINE = MINE.wrapping_add(val);
            v
        }
    }

    fn stub_fetch_sub(a: &AtomicUsize, val: usize, _o: Ordering) -> usize {
        unsafe {
            let p = a.as_ptr();
            env_step(p);
            ATOMIC_STEPS += 1;
            let v = *p;
            if v < val {
                UNDERFLOW = true;
            }
            *p = v.wrapping_sub(val);
            MINE = MINE.wrapping_sub(val);
            v
        }
    }

    /// arbitrary valid pre-state: this thread already holds `held` bytes in one live reservation
    unsafe fn setup(retries: u32) -> (MemoryPool, usize) {
        let max: usize = kani::any();
        let held: usize = kani::any();
        let others: usize = kani::any();
        kani::assume(held < HALF && others < HALF);
        MAX = max;
        MINE = held;
        OTHERS = others;
        RETRY_BOUND = retries;
        let pool = MemoryPool {
            max_memory: max,
            used: AtomicUsize::new(held + others),
            spilled: AtomicUsize::new(0),
        };
        (pool, held)
    }

    unsafe fn word(pool: &MemoryPool) -> usize {
        *pool.used.as_ptr()
    }

    unsafe fn post(pool: &MemoryPool, live: usize) {
        assert!(!UNDERFLOW, "C33.no_underflow");
        assert!(!GRANT_OVER, "C33.no_grant_over_limit");
        assert!(MINE == live, "C33.applied_equals_live_reservations");
        assert!(word(pool) == live.wrapping_add(OTHERS), "C33.used_is_sum_of_live_reservations");
        if live == 0 && OTHERS == 0 {
            assert!(word(pool) == 0, "C33.zero_when_all_dropped");
        }
    }

    // @harness tiers=quick,thorough
    // @encodes execution::memory::MemoryPool::try_allocate, execution::memory::MemoryReservation::drop, execution::memory::MemoryPool::release
    // @bounds any max, any request size, any pre-state with held,others < 2^62; environment interferes (arbitrary change of other threads' holdings, spurious CAS failure) before each of the first 3 failed CAS attempts, then lets the CAS through
    // @oracle a grant writes a value <= max at its CAS instant and never a wrapped sum; None only if last-observed + size > max (or overflows); word == my live bytes + others afterwards; drop returns exactly what was granted; no fetch_sub underflow
    // @out more than 3 consecutive lost CAS races; weak-memory effects of Relaxed loads (CBMC: sequentially consistent)
    // @replay none:the counterexample is an interleaving chosen by stubbed atomics; there is no native scheduler to force it, the CBMC trace values are reported instead
    #[kani::proof]
    #[kani::unwind(6)]
    #[kani::stub(std::sync::atomic::Atomic::<usize>::load, stub_load)]
    #[kani::stub(std::sync::atomic::Atomic::<usize>::compare_exchange_weak, stub_cas_weak)]
    #[kani::stub(std::sync::atomic::Atomic::<usize>::fetch_add, stub_fetch_add)]
    #[kani::stub(std::sync::atomic::Atomic::<usize>::fetch_sub, stub_fetch_sub)]
    fn try_allocate_then_drop_under_interference() {
        unsafe {
            let (pool, held) = setup(3);
            let size: usize = kani::any();
            let r = pool.try_allocate(size);
            match r {
                Some(res) => {
                    kani::cover!(CAS_FAILS == 3 && size > 0);
                    assert!(res.size() == size, "C33.reservation_records_its_size");
                    post(&pool, held.wrapping_add(size));
                    drop(res);
                    post(&pool, held);
                }
                None => {
                    kani::cover!(CAS_FAILS >= 1);
                    assert!(
                        LAST_SEEN.checked_add(size).map_or(true, |n| n > MAX),
                        "C33.refusal_only_when_over_limit"
                    );
                    post(&pool, held);
                }
            }
        }
    }

    // @harness tiers=thorough timeout=1200
    // @encodes execution::memory::MemoryPool::try_allocate, execution::memory::MemoryReservation::drop, execution::memory::MemoryPool::release
    // @bounds as try_allocate_then_drop_under_interference with up to 6 lost CAS races (interference before each of the first 6 attempts)
    // @oracle as try_allocate_then_drop_under_interference
    // @replay none:the counterexample is an interleaving chosen by stubbed atomics
    #[kani::proof]
    #[kani::unwind(9)]
    #[kani::stub(std::sync::atomic::Atomic::<usize>::load, stub_load)]
    #[kani::stub(std::sync::atomic::Atomic::<usize>::compare_exchange_weak, stub_cas_weak)]
    #[kani::stub(std::sync::atomic::Atomic::<usize>::fetch_add, stub_fetch_add)]
    #[kani::stub(std::sync::atomic::Atomic::<usize>::fetch_sub, stub_fetch_sub)]
    fn try_allocate_under_six_lost_races() {
        unsafe {
            let (pool, held) = setup(6);
            let size: usize = kani::any();
            let r = pool.try_allocate(size);
            match r {
                Some(res) => {
                    kani::cover!(CAS_FAILS == 6 && size > 0);
                    assert!(res.size() == size, "C33.reservation_records_its_size");
                    post(&pool, held.wrapping_add(size));
                    drop(res);
                    post(&pool, held);
                }
                None => {
                    kani::cover!(CAS_FAILS >= 5);
                    assert!(LAST_SEEN.checked_add(size).map_or(true, |n| n > MAX), "C33.refusal_only_when_over_limit");
                    post(&pool, held);
                }
            }
        }
    }

    // @harness tiers=quick,thorough
    // @encodes execution::memory::MemoryPool::allocate, execution::memory::MemoryReservation::resize, execution::memory::MemoryReservation::drop, execution::memory::MemoryPool::used, execution::memory::MemoryPool::available
    // @bounds any max; forced allocation a, resize target b with held + a, held + b < 2^62 (beyond that fetch_add wraps: physical-memory bound); environment interferes before every atomic access
    // @oracle word == my live bytes + others after allocate, after resize (grow or shrink) and after drop; used() returns the word; available() == max - used saturating
    // @replay none:interleaving chosen by stubbed atomics (see try_allocate_then_drop_under_interference)
    #[kani::proof]
    #[kani::unwind(3)]
    #[kani::stub(std::sync::atomic::Atomic::<usize>::load, stub_load)]
    #[kani::stub(std::sync::atomic::Atomic::<usize>::compare_exchange_weak, stub_cas_weak)]
    #[kani::stub(std::sync::atomic::Atomic::<usize>::fetch_add, stub_fetch_add)]
    #[kani::stub(std::sync::atomic::Atomic::<usize>::fetch_sub, stub_fetch_sub)]
    fn allocate_resize_drop_under_interference() {
        unsafe {
            let (pool, held) = setup(u32::MAX);
            let a: usize = kani::any();
            let b: usize = kani::any();
            kani::assume(a < HALF && b < HALF);
            let mut res = pool.allocate(a);
            post(&pool, held + a);
            res.resize(b);
            kani::cover!(b > a && a > 0);
            kani::cover!(b < a);
            assert!(res.size() == b, "C33.resize_records_new_size");
            post(&pool, held + b);
            let u = pool.used();
            assert!(u == word(&pool), "C33.used_reads_the_word");
            let av = pool.available();
            assert!(av == MAX.saturating_sub(word(&pool)), "C33.available_is_max_minus_used");
            drop(res);
            post(&pool, held);
        }
    }

    // @harness tiers=quick,thorough
    // @encodes execution::memory::MemoryPool::try_allocate, execution::memory::MemoryReservation::resize, execution::memory::MemoryReservation::drop
    // @bounds sequential (no interference, retry bound 0): try_allocate(a), resize(b), drop; from an empty pool; all max, a, b
    // @oracle a grant happens iff a <= max; usage returns to exactly 0 when everything is dropped
    // @replay none:uses the stubbed atomics of this module
    #[kani::proof]
    #[kani::unwind(3)]
    #[kani::stub(std::sync::atomic::Atomic::<usize>::load, stub_load)]
    #[kani::stub(std::sync::atomic::Atomic::<usize>::compare_exchange_weak, stub_cas_weak)]
    #[kani::stub(std::sync::atomic::Atomic::<usize>::fetch_add, stub_fetch_add)]
    #[kani::stub(std::sync::atomic::Atomic::<usize>::fetch_sub, stub_fetch_sub)]
    fn sequential_grant_iff_fits_and_returns_to_zero() {
        unsafe {
            let max: usize = kani::any();
            MAX = max;
            MINE = 0;
            OTHERS = 0;
            RETRY_BOUND = 0;
            let pool = MemoryPool::new(max);
            let a: usize = kani::any();
            let b: usize = kani::any();
            kani::assume(b < HALF);
            let r = pool.try_allocate(a);
            assert!(r.is_some() == (a <= max), "C33.sequential_grant_iff_fits");
            if let Some(mut res) = r {
                kani::assume(a < HALF);
                res.resize(b);
                kani::cover!(b > max);
                post(&pool, b);
                drop(res);
            }
            post(&pool, 0);
            assert!(pool.used() == 0, "C33.zero_when_all_dropped");
        }
    }

    // @playback
}
