// @target src/physical/operators/window.rs
//
// ROWS frame bounds (DESIGN §4/C26): frame_range vs the SQL definition in mathematical integers.
#[cfg(kani)]
mod __verif_c26 {
    use super::*;
    use crate::planner::WindowFrame;

    const PMAX: usize = 64;

    fn any_bound() -> FrameBound {
        let k: u8 = kani::any();
        kani::assume(k < 5);
        match k {
            0 => FrameBound::UnboundedPreceding,
            1 => FrameBound::Preceding(kani::any()),
            2 => FrameBound::CurrentRow,
            3 => FrameBound::Following(kani::any()),
            _ => FrameBound::UnboundedFollowing,
        }
    }

    /// inclusive lower edge of the frame as a mathematical integer
    fn lo_edge(b: &FrameBound, i: usize, ps: usize) -> i128 {
        match b {
            FrameBound::UnboundedPreceding => ps as i128,
            FrameBound::Preceding(k) => i as i128 - *k as i128,
            FrameBound::CurrentRow => i as i128,
            FrameBound::Following(k) => i as i128 + *k as i128,
            FrameBound::UnboundedFollowing => i128::MAX,
        }
    }

    /// inclusive upper edge
    fn hi_edge(b: &FrameBound, i: usize, pe: usize) -> i128 {
        match b {
            FrameBound::UnboundedPreceding => i128::MIN,
            FrameBound::Preceding(k) => i as i128 - *k as i128,
            FrameBound::CurrentRow => i as i128,
            FrameBound::Following(k) => i as i128 + *k as i128,
            FrameBound::UnboundedFollowing => pe as i128 - 1,
        }
    }

    fn rows_frame_case(start: FrameBound, end: FrameBound, pmax: usize) {
        // the binder rejects these two before execution ("rejected at bind")
        kani::assume(!matches!(start, FrameBound::UnboundedFollowing));
        kani::assume(!matches!(end, FrameBound::UnboundedPreceding));
        let ps: usize = kani::any();
        let pe: usize = kani::any();
        let i: usize = kani::any();
        kani::assume(ps <= i && i < pe && pe <= pmax);
        let w = WindowExpr {
            func: WindowFunc::RowNumber,
            args: Vec::new(),
            partition_by: Vec::new(),
            order_by: Vec::new(),
            frame: WindowFrame { units: FrameUnits::Rows, start, end, explicit: true },
        };
        let part = ps..pe;
        let partitions = [ps..pe];
        let peers = [ps..pe];
        let peer_of = [0usize; PMAX];
        let ctx = SortedInput {
            n: pe,
            partitions: &partitions,
            peers: &peers,
            peer_of: &peer_of,
            args: &[],
            order: &[],
            w: &w,
        };
        let r = frame_range(&ctx, &part, i);
        let r = match r {
            Ok(r) => r,
            Err(_) => {
                assert!(false, "C26.rows_frame_never_errors");
                return;
            }
        };
        kani::cover!(r.start < r.end && r.end < pe && r.start > ps);
        kani::cover!(r.start == r.end);
        assert!(ps <= r.start && r.start <= r.end && r.end <= pe, "C26.frame_inside_partition");
        // membership of an arbitrary partition row j
        let j: usize = kani::any();
        kani::assume(ps <= j && j < pe);
        let lo = lo_edge(&w.frame.start, i, ps);
        let hi = hi_edge(&w.frame.end, i, pe);
        let want = lo <= j as i128 && j as i128 <= hi;
        let have = r.start <= j && j < r.end;
        assert!(have == want, "C26.rows_frame_is_the_sql_frame");
        std::mem::forget(w);
    }

    // @harness tiers=quick,thorough
    // @encodes physical::operators::window::frame_range
    // @bounds ROWS frames; every start/end bound kind the binder admits; offsets k < 2^32 (symbolic); partition [ps,pe) with pe <= 8, every row i and every probe row j
    // @oracle j in frame  <=>  lo <= j <= hi with lo/hi = i -/+ k computed in mathematical integers, clipped to the partition; frame inside partition; start <= end
    // @out RANGE frames (Arrow arrays), partitions longer than 8 rows (the arithmetic does not depend on the length beyond the clamps)
    #[kani::proof]
    #[kani::unwind(3)]
    fn rows_frame_small_offsets() {
        let start = any_bound();
        let end = any_bound();
        if let FrameBound::Preceding(k) | FrameBound::Following(k) = &start {
            kani::assume(*k < (1u64 << 32));
        }
        if let FrameBound::Preceding(k) | FrameBound::Following(k) = &end {
            kani::assume(*k < (1u64 << 32));
        }
        rows_frame_case(start, end, 8);
    }

    // @harness tiers=quick,thorough
    // @encodes physical::operators::window::frame_range
    // @bounds as rows_frame_small_offsets but offsets k range over ALL u64 (e.g. ROWS BETWEEN CURRENT ROW AND 18446744073709551615 FOLLOWING)
    // @oracle as rows_frame_small_offsets; additionally no arithmetic overflow / panic
    #[kani::proof]
    #[kani::unwind(3)]
    fn rows_frame_any_offsets() {
        rows_frame_case(any_bound(), any_bound(), 8);
    }

    // @harness tiers=thorough timeout=1200
    // @encodes physical::operators::window::frame_range
    // @bounds as rows_frame_any_offsets with partitions of up to 64 rows
    // @oracle as rows_frame_small_offsets
    #[kani::proof]
    #[kani::unwind(3)]
    fn rows_frame_any_offsets_partitions_up_to_64() {
        rows_frame_case(any_bound(), any_bound(), 64);
    }

    /// RANGE frames with a numeric offset: one BIGINT ORDER BY key, three rows, no NULLs.
    fn range_case(desc: bool, preceding: bool) {
        use crate::planner::SortExpr;
        use arrow::buffer::ScalarBuffer;
        let keys: [i64; 3] = [kani::any(), kani::any(), kani::any()];
        // keys small enough that key +- k is exact in f64, and sorted in the ORDER BY direction (ties allowed)
        kani::assume(keys[0] > -(1 << 20) && keys[0] < (1 << 20));
        kani::assume(keys[1] > -(1 << 20) && keys[1] < (1 << 20));
        kani::assume(keys[2] > -(1 << 20) && keys[2] < (1 << 20));
        if desc {
            kani::assume(keys[0] >= keys[1] && keys[1] >= keys[2]);
        } else {
            kani::assume(keys[0] <= keys[1] && keys[1] <= keys[2]);
        }
        let k: u64 = kani::any();
        kani::assume(k < (1 << 20));
        let i: usize = kani::any();
        kani::assume(i < 3);
        let arr: ArrayRef = Arc::new(Int64Array::new(ScalarBuffer::from(vec![keys[0], keys[1], keys[2]]), None));
        let order = [arr];
        let w = WindowExpr {
            func: WindowFunc::RowNumber,
            args: Vec::new(),
            partition_by: Vec::new(),
            order_by: vec![SortExpr {
                expr: Expr::Wildcard,
                direction: if desc { SortDirection::Desc } else { SortDirection::Asc },
                nulls: NullOrdering::NullsLast,
            }],
            frame: WindowFrame {
                units: FrameUnits::Range,
                start: FrameBound::UnboundedPreceding,
                end: FrameBound::UnboundedFollowing,
                explicit: true,
            },
        };
        let part = 0usize..3usize;
        let partitions = [0usize..3usize];
        let peers = [0usize..3usize];
        let peer_of = [0usize; 3];
        let ctx = SortedInput { n: 3, partitions: &partitions, peers: &peers, peer_of: &peer_of, args: &[], order: &order, w: &w };
        // SQL: with ORDER BY ASC, `k PRECEDING` bounds the key at cur - k and `k FOLLOWING` at cur + k; DESC mirrors it
        let cur = keys[i] as i128;
        let delta = k as i128;
        let limit = if preceding == !desc { cur - delta } else { cur + delta };
        let start = match range_offset_bound(&ctx, &part, i, k, preceding) {
            Ok(v) => v,
            Err(_) => {
                assert!(false, "C26.range_offset_bound_never_errors_on_bigint_key");
                return;
            }
        };
        let end = match range_offset_end(&ctx, &part, i, k, preceding) {
            Ok(v) => v,
            Err(_) => {
                assert!(false, "C26.range_offset_end_never_errors_on_bigint_key");
                return;
            }
        };
        kani::cover!(start == 1 && end == 2);
        assert!(start <= 3 && end <= 3, "C26.range_bounds_inside_partition");
        // row j is at/after the START bound iff its key is on the frame side of `limit`, INCLUSIVE
        let j: usize = kani::any();
        kani::assume(j < 3);
        let kj = keys[j] as i128;
        let after_start = if !desc { kj >= limit } else { kj <= limit };
        let before_end = if !desc { kj <= limit } else { kj >= limit };
        assert!((j >= start) == after_start, "C26.range_start_bound_is_inclusive_first_key_inside");
        assert!((j < end) == before_end, "C26.range_end_bound_is_inclusive_last_key_inside");
        std::mem::forget(w);
        std::mem::forget(order);
    }

    // @harness tiers=experimental timeout=2400
    // @encodes physical::operators::window::range_offset_bound, physical::operators::window::range_offset_end, physical::operators::window::range_frame_key, physical::operators::window::range_key
    // @bounds RANGE frames with offset over one BIGINT ORDER BY key ASC: a partition of 3 rows with symbolic sorted keys |key| < 2^20 (ties allowed, no NULLs), every row i, offsets k < 2^20, both `k PRECEDING` and `k FOLLOWING` (iterated concretely)
    // @oracle inclusive SQL bounds in exact integers: j >= start <=> key_j >= cur -/+ k, j < end <=> key_j <= cur -/+ k
    // @out NULL keys, float/date keys, more than 3 rows, the aggregate over the frame (Arrow kernels)
    // @unwindset range_offset_bound:5 range_offset_end:5
    #[kani::proof]
    #[kani::unwind(5)]
    fn range_offset_bounds_ascending() {
        range_case(false, true);
        range_case(false, false);
    }

    // @harness tiers=experimental timeout=2400
    // @encodes physical::operators::window::range_offset_bound, physical::operators::window::range_offset_end, physical::operators::window::range_frame_key, physical::operators::window::range_key
    // @bounds as range_offset_bounds_ascending with ORDER BY ... DESC
    // @oracle mirrored inclusive bounds
    // @unwindset range_offset_bound:5 range_offset_end:5
    #[kani::proof]
    #[kani::unwind(5)]
    fn range_offset_bounds_descending() {
        range_case(true, true);
        range_case(true, false);
    }

    // @playback
}
