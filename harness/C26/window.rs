// @target src/physical/operators/window.rs
//
// ROWS frame bounds (DESIGN §4/C26): frame_range vs the SQL definition in mathematical integers.
#[cfg(kani)]
mod __verif_c26 {
    use super::*;
    use crate::planner::WindowFrame;

    const PMAX: usize = 8;

    fn any_bound() -> FrameBound {
        let k: u8 = kani::any();
        kani::assume(k < 5);
        match k {
            0 => FrameBound::UnboundedPreceding,
            1 => FrameBound::Preceding(kani::any()),
            2 => FrameBound::CurrentRow,
            3 => FrameBound::Following(kani::any()),
            _ => FrameBound::UnboundedFollowing,
        }
    }

    /// inclusive lower edge of the frame as a mathematical integer
    fn lo_edge(b: &FrameBound, i: usize, ps: usize) -> i128 {
        match b {
            FrameBound::UnboundedPreceding => ps as i128,
            FrameBound::Preceding(k) => i as i128 - *k as i128,
            FrameBound::CurrentRow => i as i128,
            FrameBound::Following(k) => i as i128 + *k as i128,
            FrameBound::UnboundedFollowing => i128::MAX,
        }
    }

    /// inclusive upper edge
    fn hi_edge(b: &FrameBound, i: usize, pe: usize) -> i128 {
        match b {
            FrameBound::UnboundedPreceding => i128::MIN,
            FrameBound::Preceding(k) => i as i128 - *k as i128,
            FrameBound::CurrentRow => i as i128,
            FrameBound::Following(k) => i as i128 + *k as i128,
            FrameBound::UnboundedFollowing => pe as i128 - 1,
        }
    }

    fn rows_frame_case(start: FrameBound, end: FrameBound) {
        // the binder rejects these two before execution ("rejected at bind")
        kani::assume(!matches!(start, FrameBound::UnboundedFollowing));
        kani::assume(!matches!(end, FrameBound::UnboundedPreceding));
        let ps: usize = kani::any();
        let pe: usize = kani::any();
        let i: usize = kani::any();
        kani::assume(ps <= i && i < pe && pe <= PMAX);
        let w = WindowExpr {
            func: WindowFunc::RowNumber,
            args: Vec::new(),
            partition_by: Vec::new(),
            order_by: Vec::new(),
            frame: WindowFrame { units: FrameUnits::Rows, start, end, explicit: true },
        };
        let part = ps..pe;
        let partitions = [ps..pe];
        let peers = [ps..pe];
        let peer_of = [0usize; PMAX];
        let ctx = SortedInput {
            n: pe,
            partitions: &partitions,
            peers: &peers,
            peer_of: &peer_of,
            args: &[],
            order: &[],
            w: &w,
        };
        let r = frame_range(&ctx, &part, i);
        let r = match r {
            Ok(r) => r,
            Err(_) => {
                assert!(false, "C26.rows_frame_never_errors");
                return;
            }
        };
        kani::cover!(r.start < r.end && r.end < pe && r.start > ps);
        kani::cover!(r.start == r.end);
        assert!(ps <= r.start && r.start <= r.end && r.end <= pe, "C26.frame_inside_partition");
        // membership of an arbitrary partition row j
        let j: usize = kani::any();
        kani::assume(ps <= j && j < pe);
        let lo = lo_edge(&w.frame.start, i, ps);
        let hi = hi_edge(&w.frame.end, i, pe);
        let want = lo <= j as i128 && j as i128 <= hi;
        let have = r.start <= j && j < r.end;
        assert!(have == want, "C26.rows_frame_is_the_sql_frame");
        std::mem::forget(w);
    }

    // @harness tiers=quick,thorough
    // @encodes physical::operators::window::frame_range
    // @bounds ROWS frames; every start/end bound kind the binder admits; offsets k < 2^32 (symbolic); partition [ps,pe) with pe <= 8, every row i and every probe row j
    // @oracle j in frame  <=>  lo <= j <= hi with lo/hi = i -/+ k computed in mathematical integers, clipped to the partition; frame inside partition; start <= end
    // @out RANGE frames (Arrow arrays), partitions longer than 8 rows (the arithmetic does not depend on the length beyond the clamps)
    #[kani::proof]
    #[kani::unwind(3)]
    fn rows_frame_small_offsets() {
        let start = any_bound();
        let end = any_bound();
        if let FrameBound::Preceding(k) | FrameBound::Following(k) = &start {
            kani::assume(*k < (1u64 << 32));
        }
        if let FrameBound::Preceding(k) | FrameBound::Following(k) = &end {
            kani::assume(*k < (1u64 << 32));
        }
        rows_frame_case(start, end);
    }

    // @harness tiers=quick,thorough
    // @encodes physical::operators::window::frame_range
    // @bounds as rows_frame_small_offsets but offsets k range over ALL u64 (e.g. ROWS BETWEEN CURRENT ROW AND 18446744073709551615 FOLLOWING)
    // @oracle as rows_frame_small_offsets; additionally no arithmetic overflow / panic
    #[kani::proof]
    #[kani::unwind(3)]
    fn rows_frame_any_offsets() {
        rows_frame_case(any_bound(), any_bound());
    }

    // @playback
}
