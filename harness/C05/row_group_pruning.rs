// @target src/storage/row_group_pruning.rs
//
// Soundness of min/max row-group skipping, leaf level (DESIGN §4/C05).
// Oracle = the row-level meaning of `col op lit` as the interpreter evaluates it:
//   integers compare exactly after widening both sides to i64 (coerce_numeric_types);
//   floats compare by IEEE-754 totalOrder (arrow-ord `cmp`): -0.0 < +0.0, NaN equals NaN and sorts last;
//   strings compare bytewise.
// A row group "holds" a value v when min <= v <= max (the Parquet writer's contract for non-NaN values).
#[cfg(kani)]
mod __verif_c05 {
    use super::*;

    fn any_cmp_op() -> BinaryOp {
        let k: u8 = kani::any();
        kani::assume(k < 6);
        match k {
            0 => BinaryOp::Eq,
            1 => BinaryOp::NotEq,
            2 => BinaryOp::Lt,
            3 => BinaryOp::LtEq,
            4 => BinaryOp::Gt,
            _ => BinaryOp::GtEq,
        }
    }

    /// row-level truth of `v op lit` over exact integers
    fn row_int(op: BinaryOp, v: i64, lit: i64) -> bool {
        match op {
            BinaryOp::Eq => v == lit,
            BinaryOp::NotEq => v != lit,
            BinaryOp::Lt => v < lit,
            BinaryOp::LtEq => v <= lit,
            BinaryOp::Gt => v > lit,
            BinaryOp::GtEq => v >= lit,
            _ => true,
        }
    }

    /// IEEE-754 totalOrder key (same construction as f64::total_cmp)
    fn total_key(x: f64) -> i64 {
        let mut b = x.to_bits() as i64;
        b ^= (((b >> 63) as u64) >> 1) as i64;
        b
    }

    fn row_f64(op: BinaryOp, v: f64, lit: f64) -> bool {
        row_int(op, total_key(v), total_key(lit))
    }

    fn i64_stats(min: i64, max: i64, nulls: Option<u64>) -> ParquetStatistics {
        ParquetStatistics::int64(Some(min), Some(max), None, nulls, false)
    }

    fn i32_stats(min: i32, max: i32, nulls: Option<u64>) -> ParquetStatistics {
        ParquetStatistics::int32(Some(min), Some(max), None, nulls, false)
    }

    // @harness tiers=quick,thorough
    // @encodes storage::row_group_pruning::check_i64_stats, storage::row_group_pruning::eval_range
    // @bounds BIGINT column statistics vs BIGINT/TIMESTAMP literal: all i64 min <= v <= max, all i64 literals, 6 comparison operators, any null count
    // @oracle row(v op lit) over exact integers  =>  the row group is NOT skipped
    #[kani::proof]
    fn skip_sound_i64_stats_i64_literal() {
        let (min, max, v, lit): (i64, i64, i64, i64) = kani::any();
        kani::assume(min <= v && v <= max);
        let op = any_cmp_op();
        let st = i64_stats(min, max, kani::any());
        let might = check_i64_stats(&st, op, lit);
        kani::cover!(!might);
        kani::cover!(might && !row_int(op, v, lit));
        if row_int(op, v, lit) {
            assert!(might, "C05.skip_sound_i64_i64");
        }
    }

    // @harness tiers=quick,thorough
    // @encodes storage::row_group_pruning::check_i64_stats, storage::row_group_pruning::eval_range
    // @bounds INTEGER/DATE column statistics (Int32) vs BIGINT literal: all i32 min <= v <= max, all i64 literals, 6 operators
    // @oracle the interpreter widens the column to i64: row(v as i64 op lit) => not skipped
    #[kani::proof]
    fn skip_sound_i32_stats_i64_literal() {
        let (min, max, v): (i32, i32, i32) = kani::any();
        let lit: i64 = kani::any();
        kani::assume(min <= v && v <= max);
        let op = any_cmp_op();
        let st = i32_stats(min, max, kani::any());
        let might = check_i64_stats(&st, op, lit);
        kani::cover!(!might);
        if row_int(op, v as i64, lit) {
            assert!(might, "C05.skip_sound_i32stats_i64lit");
        }
    }

    // @harness tiers=quick,thorough
    // @encodes storage::row_group_pruning::check_i32_stats, storage::row_group_pruning::eval_range_i32
    // @bounds INTEGER/DATE statistics vs INTEGER/DATE literal: all i32 values, 6 operators
    // @oracle row(v op lit) => not skipped
    #[kani::proof]
    fn skip_sound_i32_stats_i32_literal() {
        let (min, max, v, lit): (i32, i32, i32, i32) = kani::any();
        kani::assume(min <= v && v <= max);
        let op = any_cmp_op();
        let st = i32_stats(min, max, kani::any());
        let might = check_i32_stats(&st, op, lit);
        kani::cover!(!might);
        if row_int(op, v as i64, lit as i64) {
            assert!(might, "C05.skip_sound_i32_i32");
        }
    }

    // @harness tiers=quick,thorough
    // @encodes storage::row_group_pruning::check_i32_stats, storage::row_group_pruning::eval_range_i32
    // @bounds BIGINT column statistics (Int64) vs INTEGER/DATE literal: all i64 min <= v <= max, all i32 literals, 6 operators
    // @oracle the interpreter widens the literal to i64: row(v op lit as i64) => not skipped
    #[kani::proof]
    fn skip_sound_i64_stats_i32_literal() {
        let (min, max, v): (i64, i64, i64) = kani::any();
        let lit: i32 = kani::any();
        kani::assume(min <= v && v <= max);
        let op = any_cmp_op();
        let st = i64_stats(min, max, kani::any());
        let might = check_i32_stats(&st, op, lit);
        kani::cover!(!might);
        kani::cover!(might && v > i32::MAX as i64);
        if row_int(op, v, lit as i64) {
            assert!(might, "C05.skip_sound_i64stats_i32lit");
        }
    }

    /// IEEE row semantics (what the compiled predicate path evaluates)
    fn row_f64_ieee(op: BinaryOp, v: f64, lit: f64) -> bool {
        match op {
            BinaryOp::Eq => v == lit,
            BinaryOp::NotEq => v != lit,
            BinaryOp::Lt => v < lit,
            BinaryOp::LtEq => v <= lit,
            BinaryOp::Gt => v > lit,
            BinaryOp::GtEq => v >= lit,
            _ => true,
        }
    }

    // @harness tiers=quick,thorough
    // @encodes storage::row_group_pruning::check_f64_stats, storage::row_group_pruning::eval_range_f64
    // @bounds DOUBLE statistics vs DOUBLE literal: EVERY f64 literal incl. NaN of either sign, +-0, +-inf; statistics non-NaN with min <= max (parquet-rs writer contract); value v non-NaN with min <= v <= max in IEEE order (so a -0.0 row may sit under a +0.0 bound and vice versa)
    // @oracle a row kept under EITHER of the engine's two float semantics -- totalOrder (interpreter, arrow-ord cmp) or IEEE operators (compiled predicates) -- is never in a skipped row group
    // @out NaN values stored inside the row group (Parquet statistics ignore NaN)
    #[kani::proof]
    fn skip_sound_f64_stats_f64_literal() {
        let (min, max, v, lit): (f64, f64, f64, f64) = kani::any();
        kani::assume(!min.is_nan() && !max.is_nan() && !v.is_nan());
        kani::assume(min <= v && v <= max);
        let op = any_cmp_op();
        let st = ParquetStatistics::double(Some(min), Some(max), None, kani::any(), false);
        let might = check_f64_stats(&st, op, lit);
        kani::cover!(!might);
        kani::cover!(might && lit.is_nan());
        kani::cover!(might && v == 0.0 && lit == 0.0);
        if row_f64(op, v, lit) {
            assert!(might, "C05.skip_sound_f64_total_order");
        }
        if row_f64_ieee(op, v, lit) {
            assert!(might, "C05.skip_sound_f64_ieee");
        }
    }

    // @harness tiers=quick,thorough
    // @encodes storage::row_group_pruning::check_f64_stats
    // @bounds FLOAT (f32) statistics vs DOUBLE literal, same domain as skip_sound_f64_stats_f64_literal with f32 min/max/value
    // @oracle the interpreter widens the column to f64; a row kept under totalOrder or IEEE semantics is never skipped
    #[kani::proof]
    fn skip_sound_f32_stats_f64_literal() {
        let (min, max, v): (f32, f32, f32) = kani::any();
        let lit: f64 = kani::any();
        kani::assume(!min.is_nan() && !max.is_nan() && !v.is_nan());
        kani::assume(min <= v && v <= max);
        let op = any_cmp_op();
        let st = ParquetStatistics::float(Some(min), Some(max), None, kani::any(), false);
        let might = check_f64_stats(&st, op, lit);
        kani::cover!(!might);
        if row_f64(op, v as f64, lit) {
            assert!(might, "C05.skip_sound_f32_total_order");
        }
        if row_f64_ieee(op, v as f64, lit) {
            assert!(might, "C05.skip_sound_f32_ieee");
        }
    }

    // @harness tiers=quick,thorough
    // @encodes storage::row_group_pruning::flip_op
    // @bounds all 6 comparison operators, all i64 pairs
    // @oracle (lit op' v) with op' = flip(op) has the truth value of (v op lit) written the other way round
    #[kani::proof]
    fn flip_op_is_the_converse() {
        let (a, b): (i64, i64) = kani::any();
        let op = any_cmp_op();
        let f = flip_op(&op);
        kani::cover!(f != op);
        // `lit op col`  ==  `col flip(op) lit`
        assert!(row_int(op, a, b) == row_int(f, b, a), "C05.flip_is_converse");
    }

    // @playback
}
