// @target src/storage/row_group_pruning.rs
//
// Soundness of min/max row-group skipping, leaf level (DESIGN §4/C05).
// Oracle = the row-level meaning of `col op lit` as the interpreter evaluates it:
//   integers compare exactly after widening both sides to i64 (coerce_numeric_types);
//   floats compare by IEEE-754 totalOrder (arrow-ord `cmp`): -0.0 < +0.0, NaN equals NaN and sorts last;
//   strings compare bytewise.
// A row group "holds" a value v when min <= v <= max (the Parquet writer's contract for non-NaN values).
#[cfg(kani)]
mod __verif_c05 {
    use super::*;

    fn any_cmp_op() -> BinaryOp {
        let k: u8 = kani::any();
        kani::assume(k < 6);
        match k {
            0 => BinaryOp::Eq,
            1 => BinaryOp::NotEq,
            2 => BinaryOp::Lt,
            3 => BinaryOp::LtEq,
            4 => BinaryOp::Gt,
            _ => BinaryOp::GtEq,
        }
    }

    /// row-level truth of `v op lit` over exact integers
    fn row_int(op: BinaryOp, v: i64, lit: i64) -> bool {
        match op {
            BinaryOp::Eq => v == lit,
            BinaryOp::NotEq => v != lit,
            BinaryOp::Lt => v < lit,
            BinaryOp::LtEq => v <= lit,
            BinaryOp::Gt => v > lit,
            BinaryOp::GtEq => v >= lit,
            _ => true,
        }
    }

    /// IEEE-754 totalOrder key (same construction as f64::total_cmp)
    fn total_key(x: f64) -> i64 {
        let mut b = x.to_bits() as i64;
        b ^= (((b >> 63) as u64) >> 1) as i64;
        b
    }

    fn row_f64(op: BinaryOp, v: f64, lit: f64) -> bool {
        row_int(op, total_key(v), total_key(lit))
    }

    fn i64_stats(min: i64, max: i64, nulls: Option<u64>) -> ParquetStatistics {
        ParquetStatistics::int64(Some(min), Some(max), None, nulls, false)
    }

    fn i32_stats(min: i32, max: i32, nulls: Option<u64>) -> ParquetStatistics {
        ParquetStatistics::int32(Some(min), Some(max), None, nulls, false)
    }

    // @harness tiers=quick,thorough
    // @encodes storage::row_group_pruning::check_i64_stats, storage::row_group_pruning::eval_range
    // @bounds BIGINT column statistics vs BIGINT/TIMESTAMP literal: all i64 min <= v <= max, all i64 literals, 6 comparison operators, any null count
    // @oracle row(v op lit) over exact integers  =>  the row group is NOT skipped
    #[kani::proof]
    fn skip_sound_i64_stats_i64_literal() {
        let (min, max, v, lit): (i64, i64, i64, i64) = kani::any();
        kani::assume(min <= v && v <= max);
        let op = any_cmp_op();
        let st = i64_stats(min, max, kani::any());
        let might = check_i64_stats(&st, op, lit);
        kani::cover!(!might);
        kani::cover!(might && !row_int(op, v, lit));
        if row_int(op, v, lit) {
            assert!(might, "C05.skip_sound_i64_i64");
        }
    }

    // @harness tiers=quick,thorough
    // @encodes storage::row_group_pruning::check_i64_stats, storage::row_group_pruning::eval_range
    // @bounds INTEGER/DATE column statistics (Int32) vs BIGINT literal: all i32 min <= v <= max, all i64 literals, 6 operators
    // @oracle the interpreter widens the column to i64: row(v as i64 op lit) => not skipped
    #[kani::proof]
    fn skip_sound_i32_stats_i64_literal() {
        let (min, max, v): (i32, i32, i32) = kani::any();
        let lit: i64 = kani::any();
        kani::assume(min <= v && v <= max);
        let op = any_cmp_op();
        let st = i32_stats(min, max, kani::any());
        let might = check_i64_stats(&st, op, lit);
        kani::cover!(!might);
        if row_int(op, v as i64, lit) {
            assert!(might, "C05.skip_sound_i32stats_i64lit");
        }
    }

    // @harness tiers=quick,thorough
    // @encodes storage::row_group_pruning::check_i32_stats, storage::row_group_pruning::eval_range_i32
    // @bounds INTEGER/DATE statistics vs INTEGER/DATE literal: all i32 values, 6 operators
    // @oracle row(v op lit) => not skipped
    #[kani::proof]
    fn skip_sound_i32_stats_i32_literal() {
        let (min, max, v, lit): (i32, i32, i32, i32) = kani::any();
        kani::assume(min <= v && v <= max);
        let op = any_cmp_op();
        let st = i32_stats(min, max, kani::any());
        let might = check_i32_stats(&st, op, lit);
        kani::cover!(!might);
        if row_int(op, v as i64, lit as i64) {
            assert!(might, "C05.skip_sound_i32_i32");
        }
    }

    // @harness tiers=quick,thorough
    // @encodes storage::row_group_pruning::check_i32_stats, storage::row_group_pruning::eval_range_i32
    // @bounds BIGINT column statistics (Int64) vs INTEGER/DATE literal: all i64 min <= v <= max, all i32 literals, 6 operators
    // @oracle the interpreter widens the literal to i64: row(v op lit as i64) => not skipped
    #[kani::proof]
    fn skip_sound_i64_stats_i32_literal() {
        let (min, max, v): (i64, i64, i64) = kani::any();
        let lit: i32 = kani::any();
        kani::assume(min <= v && v <= max);
        let op = any_cmp_op();
        let st = i64_stats(min, max, kani::any());
        let might = check_i32_stats(&st, op, lit);
        kani::cover!(!might);
        kani::cover!(might && v > i32::MAX as i64);
        if row_int(op, v, lit as i64) {
            assert!(might, "C05.skip_sound_i64stats_i32lit");
        }
    }

    /// IEEE row semantics (what the compiled predicate path evaluates)
    fn row_f64_ieee(op: BinaryOp, v: f64, lit: f64) -> bool {
        match op {
            BinaryOp::Eq => v == lit,
            BinaryOp::NotEq => v != lit,
            BinaryOp::Lt => v < lit,
            BinaryOp::LtEq => v <= lit,
            BinaryOp::Gt => v > lit,
            BinaryOp::GtEq => v >= lit,
            _ => true,
        }
    }

    // @harness tiers=quick,thorough
    // @encodes storage::row_group_pruning::check_f64_stats, storage::row_group_pruning::eval_range_f64
    // @bounds DOUBLE statistics vs DOUBLE literal: EVERY f64 literal incl. NaN of either sign, +-0, +-inf; statistics non-NaN with min <= max (parquet-rs writer contract); value v non-NaN with min <= v <= max in IEEE order (so a -0.0 row may sit under a +0.0 bound and vice versa)
    // @oracle a row kept under EITHER of the engine's two float semantics -- totalOrder (interpreter, arrow-ord cmp) or IEEE operators (compiled predicates) -- is never in a skipped row group
    // @out NaN values stored inside the row group (Parquet statistics ignore NaN)
    #[kani::proof]
    fn skip_sound_f64_stats_f64_literal() {
        let (min, max, v, lit): (f64, f64, f64, f64) = kani::any();
        kani::assume(!min.is_nan() && !max.is_nan() && !v.is_nan());
        kani::assume(min <= v && v <= max);
        let op = any_cmp_op();
        let st = ParquetStatistics::double(Some(min), Some(max), None, kani::any(), false);
        let might = check_f64_stats(&st, op, lit);
        kani::cover!(!might);
        kani::cover!(might && lit.is_nan());
        kani::cover!(might && v == 0.0 && lit == 0.0);
        if row_f64(op, v, lit) {
            assert!(might, "C05.skip_sound_f64_total_order");
        }
        if row_f64_ieee(op, v, lit) {
            assert!(might, "C05.skip_sound_f64_ieee");
        }
    }

    // @harness tiers=quick,thorough
    // @encodes storage::row_group_pruning::check_f64_stats
    // @bounds FLOAT (f32) statistics vs DOUBLE literal, same domain as skip_sound_f64_stats_f64_literal with f32 min/max/value
    // @oracle the interpreter widens the column to f64; a row kept under totalOrder or IEEE semantics is never skipped
    #[kani::proof]
    fn skip_sound_f32_stats_f64_literal() {
        let (min, max, v): (f32, f32, f32) = kani::any();
        let lit: f64 = kani::any();
        kani::assume(!min.is_nan() && !max.is_nan() && !v.is_nan());
        kani::assume(min <= v && v <= max);
        let op = any_cmp_op();
        let st = ParquetStatistics::float(Some(min), Some(max), None, kani::any(), false);
        let might = check_f64_stats(&st, op, lit);
        kani::cover!(!might);
        if row_f64(op, v as f64, lit) {
            assert!(might, "C05.skip_sound_f32_total_order");
        }
        if row_f64_ieee(op, v as f64, lit) {
            assert!(might, "C05.skip_sound_f32_ieee");
        }
    }

    fn utf8_case(len_min: usize, len_v: usize, len_max: usize, len_lit: usize) {
        use parquet::data_type::ByteArray;
        // ASCII letters, concrete lengths, symbolic bytes
        let b: [u8; 8] = std::array::from_fn(|_| kani::any());
        let mut k = 0;
        while k < 8 {
            kani::assume(b[k] >= b'a' && b[k] <= b'd');
            k += 1;
        }
        let (smin, sv, smax, slit) = (&b[0..len_min], &b[2..2 + len_v], &b[4..4 + len_max], &b[6..6 + len_lit]);
        // the row group holds the value: min <= v <= max bytewise (parquet-rs writer contract for BYTE_ARRAY strings)
        kani::assume(smin <= sv && sv <= smax);
        let op = any_cmp_op();
        let st = ParquetStatistics::byte_array(Some(ByteArray::from(smin.to_vec())), Some(ByteArray::from(smax.to_vec())), None, kani::any(), false);
        let lit = unsafe { std::str::from_utf8_unchecked(slit) };
        let might = check_utf8_stats(&st, op, lit);
        kani::cover!(!might);
        kani::cover!(might);
        let ord = sv.cmp(slit);
        let row = match op {
            BinaryOp::Eq => ord == std::cmp::Ordering::Equal,
            BinaryOp::NotEq => ord != std::cmp::Ordering::Equal,
            BinaryOp::Lt => ord == std::cmp::Ordering::Less,
            BinaryOp::LtEq => ord != std::cmp::Ordering::Greater,
            BinaryOp::Gt => ord == std::cmp::Ordering::Greater,
            _ => ord != std::cmp::Ordering::Less,
        };
        if row {
            assert!(might, "C05.skip_sound_utf8");
        }
        std::mem::forget(st);
    }

    // @harness tiers=experimental timeout=2400
    // @encodes storage::row_group_pruning::check_utf8_stats, storage::row_group_pruning::eval_range_str
    // @bounds VARCHAR statistics vs VARCHAR literal: strings over {a,b,c,d}; length patterns (min, value, max, literal) = (1,1,1,1), (1,2,2,1), (2,1,2,2), (1,1,2,2) iterated concretely, all bytes symbolic; 6 operators
    // @oracle strings compare bytewise (Arrow Utf8 comparison): row(v op lit) => not skipped
    // @out longer strings, non-ASCII, truncated statistics
    #[kani::proof]
    #[kani::unwind(10)]
    fn skip_sound_utf8_stats_short_strings() {
        utf8_case(1, 1, 1, 1);
        utf8_case(1, 2, 2, 1);
        utf8_case(2, 1, 2, 2);
        utf8_case(1, 1, 2, 2);
    }

    // @harness tiers=quick,thorough
    // @encodes storage::row_group_pruning::flip_op
    // @bounds all 6 comparison operators, all i64 pairs
    // @oracle (lit op' v) with op' = flip(op) has the truth value of (v op lit) written the other way round
    #[kani::proof]
    fn flip_op_is_the_converse() {
        let (a, b): (i64, i64) = kani::any();
        let op = any_cmp_op();
        let f = flip_op(&op);
        kani::cover!(f != op);
        // `lit op col`  ==  `col flip(op) lit`
        assert!(row_int(op, a, b) == row_int(f, b, a), "C05.flip_is_converse");
    }

    // @playback
}
