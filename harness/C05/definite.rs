// @target src/storage/row_group_pruning.rs
//
// Filter elision (`row_group_definitely_matches`) and the full decision path through a real one-column
// RowGroupMetaData + Arrow schema (concrete shape, symbolic statistics).
#[cfg(kani)]
mod __verif_c05_def {
    use super::*;
    use crate::planner::Column;
    use arrow::datatypes::{DataType, Field, Schema};
    use parquet::basic::{Repetition, Type as PhysicalType};
    use parquet::file::metadata::ColumnChunkMetaData;
    use parquet::schema::types::{SchemaDescriptor, Type};
    use std::sync::Arc;

    /// `Schema::new` / `Field::new` create empty HashMaps whose RandomState constructor reads OS randomness
    /// (unsupported by Kani); the hasher keys are irrelevant for empty maps.
    fn fixed_random_state() -> std::hash::RandomState {
        unsafe { std::mem::transmute::<(u64, u64), std::hash::RandomState>((1, 2)) }
    }

    fn any_cmp_op() -> BinaryOp {
        let k: u8 = kani::any();
        kani::assume(k < 6);
        match k {
            0 => BinaryOp::Eq,
            1 => BinaryOp::NotEq,
            2 => BinaryOp::Lt,
            3 => BinaryOp::LtEq,
            4 => BinaryOp::Gt,
            _ => BinaryOp::GtEq,
        }
    }

    fn row_int(op: BinaryOp, v: i64, lit: i64) -> bool {
        match op {
            BinaryOp::Eq => v == lit,
            BinaryOp::NotEq => v != lit,
            BinaryOp::Lt => v < lit,
            BinaryOp::LtEq => v <= lit,
            BinaryOp::Gt => v > lit,
            BinaryOp::GtEq => v >= lit,
            _ => true,
        }
    }

    fn one_bigint_column(stats: ParquetStatistics) -> (RowGroupMetaData, SchemaRef) {
        let field = Type::primitive_type_builder("c", PhysicalType::INT64)
            .with_repetition(Repetition::OPTIONAL)
            .build()
            .unwrap();
        let root = Type::group_type_builder("schema").with_fields(vec![Arc::new(field)]).build().unwrap();
        let descr = Arc::new(SchemaDescriptor::new(Arc::new(root)));
        let col = ColumnChunkMetaData::builder(descr.column(0)).set_statistics(stats).build().unwrap();
        let rg = RowGroupMetaData::builder(descr)
            .set_num_rows(1)
            .set_column_metadata(vec![col])
            .build()
            .unwrap();
        let schema: SchemaRef = Arc::new(Schema::new(vec![Field::new("c", DataType::Int64, true)]));
        (rg, schema)
    }

    // @harness tiers=experimental timeout=2400
    // @encodes storage::row_group_pruning::row_group_definitely_matches, storage::row_group_pruning::definite_comparison, storage::row_group_pruning::row_group_might_match, storage::row_group_pruning::check_comparison
    // @bounds one BIGINT column `c` with symbolic Int64 statistics (all i64 min <= v <= max, any null count), predicate `c op lit` or `lit op c` with any i64 literal and the 6 comparison operators
    // @oracle definitely_matches => null_count == 0 and row(v op lit) for every value the group holds; row(v op lit) => might_match
    #[kani::proof]
    #[kani::unwind(4)]
    #[kani::stub(std::hash::RandomState::new, fixed_random_state)]
    fn elision_sound_bigint_column() {
        let (min, max, v, lit): (i64, i64, i64, i64) = kani::any();
        kani::assume(min <= v && v <= max);
        let nulls: Option<u64> = kani::any();
        let (rg, schema) = one_bigint_column(ParquetStatistics::int64(Some(min), Some(max), None, nulls, false));
        let op = any_cmp_op();
        let flipped: bool = kani::any();
        let col = Box::new(Expr::Column(Column::new("c")));
        let l = Box::new(Expr::Literal(ScalarValue::Int64(lit)));
        let pred = if flipped {
            Expr::BinaryExpr { left: l, op, right: col }
        } else {
            Expr::BinaryExpr { left: col, op, right: l }
        };
        let truth = if flipped { row_int(op, lit, v) } else { row_int(op, v, lit) };
        let def = row_group_definitely_matches(&pred, &rg, &schema);
        let might = row_group_might_match(&pred, &rg, &schema);
        kani::cover!(def);
        kani::cover!(!might);
        if def {
            assert!(nulls == Some(0), "C05.elision_requires_zero_nulls");
            assert!(truth, "C05.elision_sound_bigint");
        }
        if truth {
            assert!(might, "C05.skip_sound_bigint_full_path");
        }
        std::mem::forget(pred);
        std::mem::forget(rg);
        std::mem::forget(schema);
    }

    // @playback
}
