// @target src/storage/row_group_pruning.rs
// @mode S:rgp
//
// Composition level of row-group skipping and filter elision (DESIGN §4/C05, mode S): the REAL
// row_group_might_match / row_group_definitely_matches / check_comparison / definite_comparison / prune_row_groups
// over a one-column row group whose statistics are symbolic, against the three-valued row semantics of the
// predicate. Compiled in the scratch crate modes/rgp (shimmed Arrow schema + footer containers, real parquet-rs
// Statistics, planner enums copied verbatim from the working tree).
#[cfg(all(kani, feature = "verif_mode_s"))]
mod __verif_c05s {
    use super::*;
    use crate::planner::Column;
    use arrow::datatypes::{DataType, Field, Schema};
    use ordered_float::OrderedFloat;
    use parquet::file::metadata::ParquetMetaData;
    use std::sync::Arc;

    /// SQL three-valued truth
    #[derive(Clone, Copy, PartialEq)]
    enum Tv {
        T,
        F,
        N,
    }
    fn tv(b: bool) -> Tv {
        if b { Tv::T } else { Tv::F }
    }
    fn and3(a: Tv, b: Tv) -> Tv {
        if a == Tv::F || b == Tv::F { Tv::F } else if a == Tv::T && b == Tv::T { Tv::T } else { Tv::N }
    }
    fn or3(a: Tv, b: Tv) -> Tv {
        if a == Tv::T || b == Tv::T { Tv::T } else if a == Tv::F && b == Tv::F { Tv::F } else { Tv::N }
    }
    fn not3(a: Tv) -> Tv {
        match a { Tv::T => Tv::F, Tv::F => Tv::T, Tv::N => Tv::N }
    }

    fn any_cmp_op() -> BinaryOp {
        let k: u8 = kani::any();
        kani::assume(k < 6);
        match k {
            0 => BinaryOp::Eq,
            1 => BinaryOp::NotEq,
            2 => BinaryOp::Lt,
            3 => BinaryOp::LtEq,
            4 => BinaryOp::Gt,
            _ => BinaryOp::GtEq,
        }
    }

    fn cmp_ord(op: BinaryOp, o: std::cmp::Ordering) -> bool {
        use std::cmp::Ordering::*;
        match op {
            BinaryOp::Eq => o == Equal,
            BinaryOp::NotEq => o != Equal,
            BinaryOp::Lt => o == Less,
            BinaryOp::LtEq => o != Greater,
            BinaryOp::Gt => o == Greater,
            BinaryOp::GtEq => o != Less,
            _ => true,
        }
    }

    /// A literal the SQL layer can put next to a BIGINT column, and how the interpreter compares with it:
    /// integer literals (BIGINT / INTEGER / DATE / TIMESTAMP) are widened to i64 and compared exactly;
    /// a DOUBLE literal makes the comparison happen in f64 (column cast to double), by totalOrder.
    #[derive(Clone, Copy)]
    enum Lit {
        I64(i64),
        I32(i32),
        Date(i32),
        Ts(i64),
        F64(f64),
    }
    fn any_lit() -> Lit {
        let k: u8 = kani::any();
        kani::assume(k < 5);
        match k {
            0 => Lit::I64(kani::any()),
            1 => Lit::I32(kani::any()),
            2 => Lit::Date(kani::any()),
            3 => Lit::Ts(kani::any()),
            _ => Lit::F64(kani::any()),
        }
    }
    fn lit_expr(l: Lit) -> Expr {
        Expr::Literal(match l {
            Lit::I64(v) => ScalarValue::Int64(v),
            Lit::I32(v) => ScalarValue::Int32(v),
            Lit::Date(v) => ScalarValue::Date32(v),
            Lit::Ts(v) => ScalarValue::Timestamp(v),
            Lit::F64(v) => ScalarValue::Float64(OrderedFloat(v)),
        })
    }
    /// truth of `v op lit` (or `lit op v` when flipped) for a non-NULL BIGINT value v
    fn row_cmp(op: BinaryOp, v: i64, l: Lit, flipped: bool) -> bool {
        let ord = match l {
            Lit::I64(x) | Lit::Ts(x) => v.cmp(&x),
            Lit::I32(x) | Lit::Date(x) => v.cmp(&(x as i64)),
            Lit::F64(x) => (v as f64).total_cmp(&x),
        };
        let ord = if flipped { ord.reverse() } else { ord };
        cmp_ord(op, ord)
    }

    /// one comparison leaf over column `c`
    #[derive(Clone, Copy)]
    struct Leaf {
        op: BinaryOp,
        lit: Lit,
        flipped: bool,
    }
    fn any_leaf(flipped: bool) -> Leaf {
        Leaf { op: any_cmp_op(), lit: any_lit(), flipped }
    }
    /// a leaf whose literal is BIGINT or DOUBLE (constructed directly, so no other literal kind is explored)
    fn any_leaf_i64_or_f64(flipped: bool) -> Leaf {
        let lit = if kani::any() { Lit::I64(kani::any()) } else { Lit::F64(kani::any()) };
        Leaf { op: any_cmp_op(), lit, flipped }
    }
    fn any_leaf_i64(flipped: bool) -> Leaf {
        Leaf { op: any_cmp_op(), lit: Lit::I64(kani::any()), flipped }
    }
    fn leaf_expr(l: &Leaf) -> Expr {
        let col = Box::new(Expr::Column(Column::new("c")));
        let lit = Box::new(lit_expr(l.lit));
        if l.flipped {
            Expr::BinaryExpr { left: lit, op: l.op, right: col }
        } else {
            Expr::BinaryExpr { left: col, op: l.op, right: lit }
        }
    }
    /// three-valued truth of the leaf on a row whose value is `row` (None = NULL)
    fn leaf_tv(l: &Leaf, row: Option<i64>) -> Tv {
        match row {
            None => Tv::N,
            Some(v) => tv(row_cmp(l.op, v, l.lit, l.flipped)),
        }
    }

    struct World {
        rg: RowGroupMetaData,
        schema: SchemaRef,
        /// a row this group holds: Some(v) with min <= v <= max, or NULL (only if the null count allows it)
        row: Option<i64>,
        nulls: Option<u64>,
    }
    fn any_world() -> World {
        let (min, max, v): (i64, i64, i64) = kani::any();
        kani::assume(min <= v && v <= max);
        let nulls: Option<u64> = kani::any();
        let is_null_row: bool = kani::any();
        // a NULL row can only exist when the statistics do not say "zero nulls"
        kani::assume(!is_null_row || nulls != Some(0));
        let st = ParquetStatistics::int64(Some(min), Some(max), None, nulls, false);
        let rg = RowGroupMetaData::verif_new(vec![Some(st)], 2);
        let schema: SchemaRef = Arc::new(Schema::new(vec![Field::new("c", DataType::Int64, true)]));
        World { rg, schema, row: if is_null_row { None } else { Some(v) }, nulls }
    }

    fn check(w: &World, pred: &Expr, truth: Tv) {
        check_with(w, pred, truth, true)
    }

    /// `expect_def` = whether a "filter elided" outcome is reachable for this predicate shape on the current code
    /// (it never is for NOT ...: row_group_definitely_matches has no NOT arm), so that the vacuity witness asks for
    /// the right thing
    fn check_with(w: &World, pred: &Expr, truth: Tv, expect_def: bool) {
        let might = row_group_might_match(pred, &w.rg, &w.schema);
        let def = row_group_definitely_matches(pred, &w.rg, &w.schema);
        kani::cover!(!might);
        kani::cover!(def || !expect_def);
        if truth == Tv::T {
            assert!(might, "C05.row_kept_by_predicate_is_never_skipped");
        }
        if def {
            assert!(truth == Tv::T, "C05.filter_elided_only_if_true_for_every_row");
        }
    }

    // @harness tiers=quick,thorough timeout=900
    // @encodes storage::row_group_pruning::row_group_might_match, storage::row_group_pruning::row_group_definitely_matches, storage::row_group_pruning::check_comparison, storage::row_group_pruning::definite_comparison, storage::row_group_pruning::flip_op, storage::row_group_pruning::check_i64_stats, storage::row_group_pruning::check_i32_stats, storage::row_group_pruning::check_f64_stats
    // @bounds one BIGINT column with symbolic Int64 statistics (all min <= v <= max, any/unknown null count, the witness row may be NULL when nulls are possible); predicate = one comparison `c op lit` / `lit op c`, 6 operators, literal kinds BIGINT, INTEGER, DATE, TIMESTAMP, DOUBLE with symbolic payloads (all values incl. beyond 2^53, NaN, +-0)
    // @oracle three-valued row semantics (NULL row => not kept; integers exact after widening; a DOUBLE literal compares (v as f64) by totalOrder): predicate TRUE on the witness row => group not skipped; filter elided => predicate TRUE on the witness row
    // @out more than one column, Utf8 statistics on this path, callers (morsel reader / streaming scan / shard scan)
    #[kani::proof]
    #[kani::unwind(2)]
    fn leaf_comparison_full_path() {
        // the expression SHAPE is iterated concretely (column on the left, then on the right); operator, literal
        // kind, literal value, statistics and the witness row are symbolic
        let w = any_world();
        let l = any_leaf(false);
        let pred = leaf_expr(&l);
        check(&w, &pred, leaf_tv(&l, w.row));
        std::mem::forget(pred);
        let l2 = any_leaf(true);
        let pred2 = leaf_expr(&l2);
        check(&w, &pred2, leaf_tv(&l2, w.row));
        std::mem::forget(pred2);
        std::mem::forget(w);
    }

    /// A Box whose pointee lives in a leaked stack-like static slot instead of a fresh heap allocation. The predicate trees
    /// are never dropped (mem::forget), so this is only a different *address*; it matters to CBMC, which reads the
    /// variant tag of a child expression as a constant when the child is a plain object and as an unknown byte
    /// when it was written through a malloc'ed pointer (then every arm -- BETWEEN's deep clones included -- is explored).
    static mut SLOTS: [std::mem::MaybeUninit<Expr>; 6] = [const { std::mem::MaybeUninit::uninit() }; 6];
    static mut NEXT_SLOT: usize = 0;
    fn boxed(e: Expr) -> Box<Expr> {
        unsafe {
            let i = NEXT_SLOT;
            NEXT_SLOT += 1;
            let p = (*std::ptr::addr_of_mut!(SLOTS))[i].as_mut_ptr();
            p.write(e);
            Box::from_raw(p)
        }
    }
    /// a Box that borrows the address of a caller-owned local (never dropped: such predicates are wrapped in ManuallyDrop, so not even a panic unwinding during native replay frees the borrowed address), so
    /// that CBMC reads the child's variant tag as the constant it is instead of an unknown heap byte
    unsafe fn borrow_box(e: &mut Expr) -> Box<Expr> {
        Box::from_raw(e as *mut Expr)
    }
    fn bin(a: &Leaf, op: BinaryOp, b: &Leaf) -> Expr {
        Expr::BinaryExpr { left: boxed(leaf_expr(a)), op, right: boxed(leaf_expr(b)) }
    }
    fn not(e: Expr) -> Expr {
        Expr::UnaryExpr { op: UnaryOp::Not, expr: boxed(e) }
    }

    // @harness tiers=quick,thorough timeout=900
    // @encodes storage::row_group_pruning::row_group_might_match, storage::row_group_pruning::row_group_definitely_matches (NOT arm)
    // @bounds as leaf_comparison_full_path; predicate = NOT (c op lit), literal BIGINT or DOUBLE
    // @oracle Kleene NOT of the leaf's three-valued truth (NOT NULL is NULL: a NULL row is not kept)
    #[kani::proof]
    #[kani::unwind(2)]
    fn not_of_a_comparison() {
        let w = any_world();
        let a = any_leaf_i64_or_f64(true);
        let mut inner = leaf_expr(&a);
        let p = std::mem::ManuallyDrop::new(Expr::UnaryExpr { op: UnaryOp::Not, expr: unsafe { borrow_box(&mut inner) } });
        check_with(&w, &p, not3(leaf_tv(&a, w.row)), false);
        std::mem::forget(p);
        std::mem::forget(inner);
        std::mem::forget(w);
    }

    // @harness tiers=thorough timeout=2400
    // @encodes storage::row_group_pruning::row_group_might_match, storage::row_group_pruning::row_group_definitely_matches (AND arm)
    // @bounds as leaf_comparison_full_path; predicate = (c op1 lit1) AND (c op2 lit2), literals BIGINT or DOUBLE
    // @oracle Kleene AND of the leaves' three-valued truths
    #[kani::proof]
    #[kani::unwind(2)]
    fn and_of_two_comparisons() {
        let w = any_world();
        let (a, b) = (any_leaf_i64_or_f64(false), any_leaf_i64_or_f64(true));
        let (mut l, mut r) = (leaf_expr(&a), leaf_expr(&b));
        let p = std::mem::ManuallyDrop::new(Expr::BinaryExpr { left: unsafe { borrow_box(&mut l) }, op: BinaryOp::And, right: unsafe { borrow_box(&mut r) } });
        check(&w, &p, and3(leaf_tv(&a, w.row), leaf_tv(&b, w.row)));
        std::mem::forget(p);
        std::mem::forget((l, r));
        std::mem::forget(w);
    }

    // @harness tiers=thorough timeout=2400
    // @encodes storage::row_group_pruning::row_group_might_match, storage::row_group_pruning::row_group_definitely_matches (OR arm)
    // @bounds as and_of_two_comparisons with OR
    // @oracle Kleene OR
    #[kani::proof]
    #[kani::unwind(2)]
    fn or_of_two_comparisons() {
        let w = any_world();
        let (a, b) = (any_leaf_i64_or_f64(false), any_leaf_i64_or_f64(true));
        let (mut l, mut r) = (leaf_expr(&a), leaf_expr(&b));
        let p = std::mem::ManuallyDrop::new(Expr::BinaryExpr { left: unsafe { borrow_box(&mut l) }, op: BinaryOp::Or, right: unsafe { borrow_box(&mut r) } });
        check(&w, &p, or3(leaf_tv(&a, w.row), leaf_tv(&b, w.row)));
        std::mem::forget(p);
        std::mem::forget((l, r));
        std::mem::forget(w);
    }

    // @harness tiers=thorough timeout=2400
    // @encodes storage::row_group_pruning::row_group_might_match, storage::row_group_pruning::row_group_definitely_matches (NOT over AND / OR)
    // @bounds predicate = NOT (leaf AND leaf) or NOT (leaf OR leaf) (connective symbolic), BIGINT literals
    // @oracle Kleene NOT / AND / OR
    #[kani::proof]
    #[kani::unwind(3)]
    fn not_of_and_or() {
        let w = any_world();
        let (a, b) = (any_leaf_i64(false), any_leaf_i64(false));
        let (ta, tb) = (leaf_tv(&a, w.row), leaf_tv(&b, w.row));
        let (mut l, mut r) = (leaf_expr(&a), leaf_expr(&b));
        let mut conj = std::mem::ManuallyDrop::new(Expr::BinaryExpr { left: unsafe { borrow_box(&mut l) }, op: BinaryOp::And, right: unsafe { borrow_box(&mut r) } });
        let p = std::mem::ManuallyDrop::new(Expr::UnaryExpr { op: UnaryOp::Not, expr: unsafe { borrow_box(&mut *conj) } });
        check_with(&w, &p, not3(and3(ta, tb)), false);
        std::mem::forget(p);
        let (mut l2, mut r2) = (leaf_expr(&a), leaf_expr(&b));
        let mut disj = std::mem::ManuallyDrop::new(Expr::BinaryExpr { left: unsafe { borrow_box(&mut l2) }, op: BinaryOp::Or, right: unsafe { borrow_box(&mut r2) } });
        let q = std::mem::ManuallyDrop::new(Expr::UnaryExpr { op: UnaryOp::Not, expr: unsafe { borrow_box(&mut *disj) } });
        check_with(&w, &q, not3(or3(ta, tb)), false);
        std::mem::forget(q);
        std::mem::forget((l, r, conj, l2, r2, disj));
        std::mem::forget(w);
    }

    // @harness tiers=quick,thorough timeout=900
    // @encodes storage::row_group_pruning::row_group_might_match, storage::row_group_pruning::row_group_definitely_matches (BETWEEN arm)
    // @bounds as leaf_comparison_full_path; predicate = c [NOT] BETWEEN lo AND hi, BIGINT literals, lo and hi unrelated (lo > hi allowed)
    // @oracle BETWEEN = (c >= lo AND c <= hi) in three-valued logic; NOT BETWEEN negates
    #[kani::proof]
    #[kani::unwind(3)]
    fn between_predicate() {
        let w = any_world();
        let (x, y): (i64, i64) = kani::any();
        let negated: bool = kani::any();
        let t = match w.row {
            None => Tv::N,
            Some(v) => and3(tv(v >= x), tv(v <= y)),
        };
        let p = Expr::Between {
            expr: Box::new(Expr::Column(Column::new("c"))),
            low: Box::new(Expr::Literal(ScalarValue::Int64(x))),
            high: Box::new(Expr::Literal(ScalarValue::Int64(y))),
            negated,
        };
        check(&w, &p, if negated { not3(t) } else { t });
        std::mem::forget(p);
        std::mem::forget(w);
    }

    // @harness tiers=quick,thorough timeout=900
    // @encodes storage::row_group_pruning::row_group_might_match, storage::row_group_pruning::row_group_definitely_matches (IN arm)
    // @bounds predicate = c [NOT] IN (x, y), BIGINT literals
    // @oracle IN = (c = x OR c = y) in three-valued logic; NOT IN negates
    #[kani::proof]
    #[kani::unwind(4)]
    fn in_list_predicate() {
        let w = any_world();
        let (x, y): (i64, i64) = kani::any();
        let t = match w.row {
            None => Tv::N,
            Some(v) => or3(tv(v == x), tv(v == y)),
        };
        // list elements and the tested expression live in locals (see borrow_box)
        let mut col = Expr::Column(Column::new("c"));
        let mut items = [Expr::Literal(ScalarValue::Int64(x)), Expr::Literal(ScalarValue::Int64(y))];
        let p = std::mem::ManuallyDrop::new(Expr::InList {
            expr: unsafe { borrow_box(&mut col) },
            list: unsafe { Vec::from_raw_parts(items.as_mut_ptr(), 2, 2) },
            negated: false,
        });
        check(&w, &p, t);
        let mut col2 = Expr::Column(Column::new("c"));
        let mut items2 = [Expr::Literal(ScalarValue::Int64(x)), Expr::Literal(ScalarValue::Int64(y))];
        let q = std::mem::ManuallyDrop::new(Expr::InList {
            expr: unsafe { borrow_box(&mut col2) },
            list: unsafe { Vec::from_raw_parts(items2.as_mut_ptr(), 2, 2) },
            negated: true,
        });
        check_with(&w, &q, not3(t), false);
        std::mem::forget((col, items, col2, items2));
        std::mem::forget(w);
    }

    // @harness tiers=quick,thorough timeout=900
    // @encodes storage::row_group_pruning::row_group_might_match, storage::row_group_pruning::row_group_definitely_matches, storage::row_group_pruning::check_comparison, storage::row_group_pruning::definite_comparison, storage::row_group_pruning::check_f64_stats
    // @bounds one DOUBLE column with symbolic Double statistics (non-NaN, min <= v <= max in IEEE order, any/unknown null count; the witness row may be NULL when nulls are possible); predicate `c op lit` and `lit op c`; literal kinds DOUBLE (every f64 incl. NaN, +-0, +-inf) and BIGINT
    // @oracle the interpreter compares in f64 by totalOrder (a BIGINT literal is cast to double); predicate TRUE on the witness row => group not skipped; filter elided => predicate TRUE on the witness row -- under totalOrder AND under IEEE operators (the compiled path)
    // @out NaN values stored in the row group (Parquet statistics ignore NaN)
    #[kani::proof]
    #[kani::unwind(3)]
    fn leaf_comparison_full_path_double_column() {
        let (min, max, v): (f64, f64, f64) = kani::any();
        kani::assume(!min.is_nan() && !max.is_nan() && !v.is_nan());
        kani::assume(min <= v && v <= max);
        let nulls: Option<u64> = kani::any();
        let is_null_row: bool = kani::any();
        kani::assume(!is_null_row || nulls != Some(0));
        let st = ParquetStatistics::double(Some(min), Some(max), None, nulls, false);
        let rg = RowGroupMetaData::verif_new(vec![Some(st)], 2);
        let schema: SchemaRef = Arc::new(Schema::new(vec![Field::new("c", DataType::Float64, true)]));
        let ieee = |op: BinaryOp, a: f64, b: f64| match op {
            BinaryOp::Eq => a == b,
            BinaryOp::NotEq => a != b,
            BinaryOp::Lt => a < b,
            BinaryOp::LtEq => a <= b,
            BinaryOp::Gt => a > b,
            BinaryOp::GtEq => a >= b,
            _ => true,
        };
        // shape iterated concretely: column on the left, then on the right
        let mut flipped = false;
        let mut round = 0;
        while round < 2 {
            let op = any_cmp_op();
            let is_int: bool = kani::any();
            let (lit_f, lit_e) = if is_int {
                let x: i64 = kani::any();
                (x as f64, Expr::Literal(ScalarValue::Int64(x)))
            } else {
                let x: f64 = kani::any();
                (x, Expr::Literal(ScalarValue::Float64(OrderedFloat(x))))
            };
            let col = Box::new(Expr::Column(Column::new("c")));
            let pred = if flipped {
                Expr::BinaryExpr { left: Box::new(lit_e), op, right: col }
            } else {
                Expr::BinaryExpr { left: col, op, right: Box::new(lit_e) }
            };
            let might = row_group_might_match(&pred, &rg, &schema);
            let def = row_group_definitely_matches(&pred, &rg, &schema);
            kani::cover!(def);
            kani::cover!(!might);
            if !is_null_row {
                let ord = if flipped { lit_f.total_cmp(&v) } else { v.total_cmp(&lit_f) };
                let t_total = cmp_ord(op, ord);
                let t_ieee = if flipped { ieee(op, lit_f, v) } else { ieee(op, v, lit_f) };
                if t_total || t_ieee {
                    assert!(might, "C05.double_row_kept_by_predicate_is_never_skipped");
                }
                if def {
                    assert!(t_total && t_ieee, "C05.double_filter_elided_only_if_true_for_every_row");
                }
            } else if def {
                assert!(false, "C05.double_filter_elided_despite_a_null_row");
            }
            std::mem::forget(pred);
            flipped = true;
            round += 1;
        }
        std::mem::forget((rg, schema));
    }

    // @harness tiers=quick,thorough timeout=900
    // @encodes storage::row_group_pruning::prune_row_groups
    // @bounds a file of two row groups, each one BIGINT column with symbolic statistics; predicate = one comparison with a BIGINT literal
    // @oracle prune_row_groups returns exactly the ascending indices i for which row_group_might_match(pred, rg_i) holds; with no predicate, every index
    #[kani::proof]
    #[kani::unwind(4)]
    fn prune_row_groups_lists_the_matching_groups() {
        let w0 = any_world();
        let w1 = any_world();
        let l = any_leaf_i64(false);
        let pred = leaf_expr(&l);
        let m0 = row_group_might_match(&pred, &w0.rg, &w0.schema);
        let m1 = row_group_might_match(&pred, &w1.rg, &w1.schema);
        let md = ParquetMetaData::verif_new(vec![w0.rg.clone(), w1.rg.clone()]);
        let got = prune_row_groups(&md, &w0.schema, Some(&pred));
        let all = prune_row_groups(&md, &w0.schema, None);
        kani::cover!(got.len() == 1 && got[0] == 1);
        assert!(all.len() == 2 && all[0] == 0 && all[1] == 1, "C05.no_predicate_keeps_every_row_group");
        let want_len = m0 as usize + m1 as usize;
        assert!(got.len() == want_len, "C05.prune_keeps_exactly_the_matching_groups");
        if m0 {
            assert!(got[0] == 0, "C05.prune_keeps_group_0");
        }
        if m1 {
            assert!(got[got.len() - 1] == 1, "C05.prune_keeps_group_1");
        }
        std::mem::forget((pred, md, got, all, w0, w1));
    }

    // @playback
}
