// @target src/optimizer/rules/constant_folding.rs
//
// Literal evaluation in the constant folder agrees with SQL (DESIGN §4/C02, H1).
#[cfg(kani)]
mod __verif_c02 {
    use super::*;

    fn any_op() -> BinaryOp {
        let k: u8 = kani::any();
        kani::assume(k < 16);
        match k {
            0 => BinaryOp::Add,
            1 => BinaryOp::Subtract,
            2 => BinaryOp::Multiply,
            3 => BinaryOp::Divide,
            4 => BinaryOp::Modulo,
            5 => BinaryOp::Eq,
            6 => BinaryOp::NotEq,
            7 => BinaryOp::Lt,
            8 => BinaryOp::LtEq,
            9 => BinaryOp::Gt,
            10 => BinaryOp::GtEq,
            11 => BinaryOp::And,
            12 => BinaryOp::Or,
            13 => BinaryOp::Like,
            14 => BinaryOp::NotLike,
            _ => BinaryOp::StringConcat,
        }
    }

    fn as_i64(v: &Option<ScalarValue>) -> Option<i64> {
        match v {
            Some(ScalarValue::Int64(x)) => Some(*x),
            _ => None,
        }
    }

    fn as_bool(v: &Option<ScalarValue>) -> Option<bool> {
        match v {
            Some(ScalarValue::Boolean(x)) => Some(*x),
            _ => None,
        }
    }

    // @harness tiers=quick,thorough
    // @encodes optimizer::rules::constant_folding::ConstantFolding::eval_int64
    // @bounds all i64 pairs; +, -, comparison operators, and every non-integer operator (must not fold)
    // @oracle exact integer result (i128) when it fits in i64, otherwise "do not fold" (None): never a wrapped value, never a panic; comparisons are the integer order
    #[kani::proof]
    #[kani::unwind(3)]
    fn fold_int64_add_sub_cmp() {
        let (l, r): (i64, i64) = kani::any();
        let op = any_op();
        kani::assume(!matches!(op, BinaryOp::Multiply | BinaryOp::Divide | BinaryOp::Modulo));
        let got = ConstantFolding.eval_int64(l, op, r);
        kani::cover!(got.is_none() && matches!(op, BinaryOp::Add));
        kani::cover!(as_bool(&got) == Some(true));
        let (li, ri) = (l as i128, r as i128);
        match op {
            BinaryOp::Add | BinaryOp::Subtract => {
                let exact = if matches!(op, BinaryOp::Add) { li + ri } else { li - ri };
                if exact >= i64::MIN as i128 && exact <= i64::MAX as i128 {
                    assert!(as_i64(&got) == Some(exact as i64), "C02.int_add_sub_exact");
                } else {
                    assert!(got.is_none(), "C02.int_overflow_is_not_folded");
                }
            }
            BinaryOp::Eq => assert!(as_bool(&got) == Some(l == r), "C02.int_eq"),
            BinaryOp::NotEq => assert!(as_bool(&got) == Some(l != r), "C02.int_ne"),
            BinaryOp::Lt => assert!(as_bool(&got) == Some(l < r), "C02.int_lt"),
            BinaryOp::LtEq => assert!(as_bool(&got) == Some(l <= r), "C02.int_le"),
            BinaryOp::Gt => assert!(as_bool(&got) == Some(l > r), "C02.int_gt"),
            BinaryOp::GtEq => assert!(as_bool(&got) == Some(l >= r), "C02.int_ge"),
            _ => assert!(got.is_none(), "C02.int_other_ops_not_folded"),
        }
        std::mem::forget(got);
    }

    // @harness tiers=quick,thorough
    // @encodes optimizer::rules::constant_folding::ConstantFolding::eval_int64
    // @bounds ALL i64 pairs; / and % (division by zero and i64::MIN / -1 included)
    // @oracle never panics (Kani's division-overflow check on the real `left / right`, `left % right`); division by zero is not folded; a folded quotient/remainder is an Int64
    #[kani::proof]
    #[kani::unwind(3)]
    fn fold_int64_div_mod_never_panics() {
        let (l, r): (i64, i64) = kani::any();
        let is_div: bool = kani::any();
        let op = if is_div { BinaryOp::Divide } else { BinaryOp::Modulo };
        let got = ConstantFolding.eval_int64(l, op, r);
        kani::cover!(got.is_none() && r != 0);
        kani::cover!(got.is_some());
        if r == 0 {
            assert!(got.is_none(), "C02.int_div_by_zero_not_folded");
        }
        if let Some(v) = &got {
            assert!(matches!(v, ScalarValue::Int64(_)), "C02.int_div_mod_folds_to_bigint");
        }
        std::mem::forget(got);
    }

    // @harness tiers=experimental timeout=2400
    // @encodes optimizer::rules::constant_folding::ConstantFolding::eval_int64
    // @bounds / and % with |l| < 2^20 and 0 < |r| < 2^10 (small widths so that the reference characterisation by multiplication stays cheap to bit-blast)
    // @oracle SQL integer division truncates toward zero: l = q*r + m with |m| < |r| and m = 0 or sign(m) = sign(l); the folded value is that q resp. m
    // @out the exactness of wider operands (only panic-freedom is decided at full width)
    #[kani::proof]
    #[kani::unwind(3)]
    fn fold_int64_div_mod_truncates_toward_zero() {
        let (l, r): (i64, i64) = kani::any();
        kani::assume(l > -(1 << 20) && l < (1 << 20));
        kani::assume(r != 0 && r > -(1 << 10) && r < (1 << 10));
        let q = as_i64(&ConstantFolding.eval_int64(l, BinaryOp::Divide, r));
        let m = as_i64(&ConstantFolding.eval_int64(l, BinaryOp::Modulo, r));
        kani::cover!(q == Some(-3) && m == Some(-1));
        assert!(q.is_some() && m.is_some(), "C02.int_div_mod_folds");
        let (q, m) = (q.unwrap(), m.unwrap());
        assert!(q * r + m == l, "C02.int_div_mod_identity");
        let (am, ar) = (if m < 0 { -m } else { m }, if r < 0 { -r } else { r });
        assert!(am < ar, "C02.int_mod_smaller_than_divisor");
        assert!(m == 0 || (m < 0) == (l < 0), "C02.int_mod_has_sign_of_dividend");
    }

    // @harness tiers=experimental timeout=2400
    // @encodes optimizer::rules::constant_folding::ConstantFolding::eval_int64
    // @bounds multiplication with |l| < 2^40 and |r| < 2^25 (products up to 2^65, so the overflow path is reachable), either operand order
    // @oracle exact product (computed in i128) when it fits in i64, else "do not fold"
    // @out both factors wide at once
    #[kani::proof]
    #[kani::unwind(3)]
    fn fold_int64_mul() {
        let (l, r): (i64, i64) = kani::any();
        kani::assume(l > -(1i64 << 40) && l < (1i64 << 40));
        kani::assume(r > -(1i64 << 25) && r < (1i64 << 25));
        let swap: bool = kani::any();
        let got = if swap {
            ConstantFolding.eval_int64(r, BinaryOp::Multiply, l)
        } else {
            ConstantFolding.eval_int64(l, BinaryOp::Multiply, r)
        };
        kani::cover!(got.is_none());
        kani::cover!(as_i64(&got) == Some(-6));
        let exact = (l as i128) * (r as i128);
        if exact >= i64::MIN as i128 && exact <= i64::MAX as i128 {
            assert!(as_i64(&got) == Some(exact as i64), "C02.int_mul_exact");
        } else {
            assert!(got.is_none(), "C02.int_mul_overflow_not_folded");
        }
        std::mem::forget(got);
    }

    // @harness tiers=quick,thorough
    // @encodes optimizer::rules::constant_folding::ConstantFolding::eval_bool
    // @bounds both booleans, every operator
    // @oracle two-valued AND / OR / = / <> ; every other operator is not folded
    #[kani::proof]
    #[kani::unwind(3)]
    fn fold_bool() {
        let (l, r): (bool, bool) = kani::any();
        let op = any_op();
        let got = ConstantFolding.eval_bool(l, op, r);
        kani::cover!(as_bool(&got) == Some(true) && matches!(op, BinaryOp::Or));
        match op {
            BinaryOp::And => assert!(as_bool(&got) == Some(l && r), "C02.bool_and"),
            BinaryOp::Or => assert!(as_bool(&got) == Some(l || r), "C02.bool_or"),
            BinaryOp::Eq => assert!(as_bool(&got) == Some(l == r), "C02.bool_eq"),
            BinaryOp::NotEq => assert!(as_bool(&got) == Some(l != r), "C02.bool_ne"),
            _ => assert!(got.is_none(), "C02.bool_other_ops_not_folded"),
        }
        std::mem::forget(got);
    }

    fn any_simple_scalar() -> ScalarValue {
        let k: u8 = kani::any();
        kani::assume(k < 4);
        match k {
            0 => ScalarValue::Null,
            1 => ScalarValue::Boolean(kani::any()),
            2 => ScalarValue::Int64(kani::any()),
            _ => ScalarValue::Float64(ordered_float::OrderedFloat(kani::any())),
        }
    }

    // @harness tiers=quick,thorough
    // @encodes optimizer::rules::constant_folding::ConstantFolding::eval_binary
    // @bounds operands range over {NULL, BOOLEAN b, BIGINT i, DOUBLE f} with symbolic payloads; operators restricted to comparison/logical ones (no arithmetic, so no panic path is mixed in)
    // @oracle a NULL operand is never folded to TRUE/FALSE (NULL = NULL, NULL AND FALSE, NULL OR TRUE stay unevaluated here; the AND/OR identities are applied by fold_expr, which is outside); operands of different kinds are not folded
    #[kani::proof]
    #[kani::unwind(3)]
    fn fold_never_evaluates_null_or_mixed_kinds() {
        let l = any_simple_scalar();
        let r = any_simple_scalar();
        let op = any_op();
        kani::assume(!matches!(op, BinaryOp::Add | BinaryOp::Subtract | BinaryOp::Multiply | BinaryOp::Divide | BinaryOp::Modulo));
        let got = ConstantFolding.eval_binary(&l, op, &r);
        kani::cover!(got.is_some());
        kani::cover!(got.is_none() && matches!(l, ScalarValue::Null));
        let same_kind = std::mem::discriminant(&l) == std::mem::discriminant(&r);
        if matches!(l, ScalarValue::Null) || matches!(r, ScalarValue::Null) {
            assert!(got.is_none(), "C02.null_operand_is_never_folded");
        }
        if !same_kind {
            assert!(got.is_none(), "C02.mixed_kinds_not_folded");
        }
        if let Some(v) = &got {
            assert!(matches!(v, ScalarValue::Boolean(_)), "C02.comparison_folds_to_boolean");
        }
        std::mem::forget(got);
        std::mem::forget(l);
        std::mem::forget(r);
    }

    /// SQL three-valued truth of a boolean literal (NULL literal = unknown)
    #[derive(Clone, Copy, PartialEq)]
    enum Tv {
        T,
        F,
        N,
    }
    fn lit(t: Tv) -> Expr {
        Expr::Literal(match t {
            Tv::T => ScalarValue::Boolean(true),
            Tv::F => ScalarValue::Boolean(false),
            Tv::N => ScalarValue::Null,
        })
    }
    fn tv_of(e: &Expr) -> Option<Tv> {
        match e {
            Expr::Literal(ScalarValue::Boolean(true)) => Some(Tv::T),
            Expr::Literal(ScalarValue::Boolean(false)) => Some(Tv::F),
            Expr::Literal(ScalarValue::Null) => Some(Tv::N),
            _ => None,
        }
    }
    fn and3(a: Tv, b: Tv) -> Tv {
        if a == Tv::F || b == Tv::F { Tv::F } else if a == Tv::T && b == Tv::T { Tv::T } else { Tv::N }
    }
    fn or3(a: Tv, b: Tv) -> Tv {
        if a == Tv::T || b == Tv::T { Tv::T } else if a == Tv::F && b == Tv::F { Tv::F } else { Tv::N }
    }

    /// fold `l op r` where both operands are boolean/NULL literals; the operands live in locals and the parent only
    /// borrows their addresses (never dropped), so CBMC reads their variant tags as constants (DESIGN §0)
    fn fold_logic_case(a: Tv, b: Tv, is_and: bool) {
        let (mut l, mut r) = (lit(a), lit(b));
        let e = std::mem::ManuallyDrop::new(Expr::BinaryExpr {
            left: unsafe { Box::from_raw(&mut l as *mut Expr) },
            op: if is_and { BinaryOp::And } else { BinaryOp::Or },
            right: unsafe { Box::from_raw(&mut r as *mut Expr) },
        });
        let out = ConstantFolding.fold_expr(&e);
        let want = if is_and { and3(a, b) } else { or3(a, b) };
        // the folder may leave the expression unevaluated (still a BinaryExpr), but whatever literal it produces must
        // be the Kleene result: NULL AND FALSE = FALSE, NULL OR TRUE = TRUE, NULL AND TRUE = NULL, ...
        if let Some(got) = tv_of(&out) {
            assert!(got == want, "C02.folded_and_or_is_kleene");
        } else {
            assert!(matches!(out, Expr::BinaryExpr { .. }), "C02.unfolded_and_or_is_left_alone");
        }
        std::mem::forget(out);
        std::mem::forget((l, r));
    }

    // @harness tiers=quick,thorough timeout=900
    // @encodes optimizer::rules::constant_folding::ConstantFolding::fold_expr, optimizer::rules::constant_folding::ConstantFolding::eval_binary, optimizer::rules::constant_folding::ConstantFolding::eval_bool
    // @bounds `l AND r` and `l OR r` for all 9 pairs of literals in {TRUE, FALSE, NULL} (iterated concretely: 18 expressions)
    // @oracle Kleene three-valued AND / OR: any literal the folder produces is the SQL result (NULL AND FALSE folds to FALSE, NULL OR TRUE to TRUE; x AND TRUE / x OR FALSE fold to x)
    #[kani::proof]
    #[kani::unwind(2)]
    fn fold_and_or_over_boolean_and_null_literals() {
        let mut folded = 0u32;
        macro_rules! both {
            ($a:expr, $b:expr) => {
                fold_logic_case($a, $b, true);
                fold_logic_case($a, $b, false);
                folded += 2;
            };
        }
        both!(Tv::T, Tv::T);
        both!(Tv::T, Tv::F);
        both!(Tv::T, Tv::N);
        both!(Tv::F, Tv::T);
        both!(Tv::F, Tv::F);
        both!(Tv::F, Tv::N);
        both!(Tv::N, Tv::T);
        both!(Tv::N, Tv::F);
        both!(Tv::N, Tv::N);
        kani::cover!(folded == 18);
    }

    /// fold `c op lit` / `lit op c` where `c` is a column (any truth value at run time): whatever the folder returns
    /// must denote the Kleene result for EVERY value of c
    fn fold_column_case(t: Tv, is_and: bool, col_left: bool) {
        let (mut c, mut k) = (Expr::Column(crate::planner::Column::new("c")), lit(t));
        let (lp, rp) = if col_left { (&mut c as *mut Expr, &mut k as *mut Expr) } else { (&mut k as *mut Expr, &mut c as *mut Expr) };
        let e = std::mem::ManuallyDrop::new(Expr::BinaryExpr {
            left: unsafe { Box::from_raw(lp) },
            op: if is_and { BinaryOp::And } else { BinaryOp::Or },
            right: unsafe { Box::from_raw(rp) },
        });
        let out = ConstantFolding.fold_expr(&e);
        let f = |x: Tv| if is_and { and3(x, t) } else { or3(x, t) };
        if let Some(got) = tv_of(&out) {
            // folded to a literal: must be right whatever the column holds
            assert!(f(Tv::T) == got && f(Tv::F) == got && f(Tv::N) == got, "C02.column_and_or_literal_folds_only_when_the_column_is_irrelevant");
        } else if matches!(out, Expr::Column(_)) {
            // folded to the column itself: the literal must be the neutral element
            assert!(f(Tv::T) == Tv::T && f(Tv::F) == Tv::F && f(Tv::N) == Tv::N, "C02.column_and_or_literal_folds_to_the_column_only_for_the_neutral_literal");
        } else {
            assert!(matches!(out, Expr::BinaryExpr { .. }), "C02.unfolded_and_or_is_left_alone");
        }
        std::mem::forget(out);
        std::mem::forget((c, k));
    }

    // @harness tiers=quick,thorough timeout=900
    // @encodes optimizer::rules::constant_folding::ConstantFolding::fold_expr
    // @bounds `c AND lit`, `lit AND c`, `c OR lit`, `lit OR c` for a column c and lit in {TRUE, FALSE, NULL} (12 expressions, iterated concretely)
    // @oracle the rewrite is sound for every run-time truth value of c in {TRUE, FALSE, NULL} (Kleene): folding to a literal only when c is irrelevant (c AND FALSE, c OR TRUE), to c only for the neutral literal (c AND TRUE, c OR FALSE); `c AND NULL` / `c OR NULL` must not be folded to anything
    #[kani::proof]
    #[kani::unwind(2)]
    fn fold_and_or_with_a_column_operand() {
        let mut n = 0u32;
        macro_rules! four {
            ($t:expr) => {
                fold_column_case($t, true, true);
                fold_column_case($t, true, false);
                fold_column_case($t, false, true);
                fold_column_case($t, false, false);
                n += 4;
            };
        }
        four!(Tv::T);
        four!(Tv::F);
        four!(Tv::N);
        kani::cover!(n == 12);
    }

    // @playback
}
