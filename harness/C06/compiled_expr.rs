// @target src/physical/compiled_expr.rs
//
// One chunk step of the compiled predicate evaluator vs the interpreter's scalar semantics (DESIGN §4/C06).
// Programs are built directly (private fields) in the exact shapes `Compiler::boolean/side/num_f64` emit;
// the arrays are real 1-row Arrow arrays with symbolic contents.
#[cfg(kani)]
mod __verif_c06 {
    use super::*;
    use arrow::buffer::ScalarBuffer;

    fn any_cmp() -> Cmp {
        let k: u8 = kani::any();
        kani::assume(k < 6);
        match k {
            0 => Cmp::Eq,
            1 => Cmp::Ne,
            2 => Cmp::Lt,
            3 => Cmp::Le,
            4 => Cmp::Gt,
            _ => Cmp::Ge,
        }
    }

    /// the interpreter's row semantics for integers (arrow-ord cmp on primitive ints)
    fn row_int(op: Cmp, a: i64, b: i64) -> bool {
        match op {
            Cmp::Eq => a == b,
            Cmp::Ne => a != b,
            Cmp::Lt => a < b,
            Cmp::Le => a <= b,
            Cmp::Gt => a > b,
            Cmp::Ge => a >= b,
        }
    }

    fn total_key(x: f64) -> i64 {
        let mut b = x.to_bits() as i64;
        b ^= (((b >> 63) as u64) >> 1) as i64;
        b
    }

    /// the interpreter's row semantics for floats: arrow-ord cmp = IEEE-754 totalOrder
    fn row_f64(op: Cmp, a: f64, b: f64) -> bool {
        row_int(op, total_key(a), total_key(b))
    }

    fn pred(prog: Vec<Instr>, out: u8, f_regs: usize, m_regs: usize) -> CompiledPredicate {
        CompiledPredicate { cols: Vec::new(), col_types: Vec::new(), prog, out, f_regs, m_regs }
    }

    fn run1(p: &CompiledPredicate, arrays: &[ColArr]) -> u8 {
        let mut f = vec![[0f64; CHUNK]; p.f_regs.max(1)];
        let mut m = vec![[0u8; CHUNK]; p.m_regs.max(1)];
        p.eval_chunk(arrays, 0, 1, &mut f, &mut m);
        let r = m[p.out as usize][0];
        std::mem::forget(f);
        std::mem::forget(m);
        r
    }

    // @harness tiers=quick,thorough timeout=900
    // @encodes physical::compiled_expr::CompiledPredicate::eval_chunk (Instr::CmpI64, cmp_loop!/cmp_shapes! Slice-Scalar and Scalar-Slice)
    // @bounds 1 row; BIGINT column value x and literal v over all i64; 6 comparison operators; literal on either side
    // @oracle mask bit == (x op v) resp. (v op x) as the interpreter computes it (exact integer comparison)
    // @out null propagation, chunk boundaries / bit packing in `evaluate`, Compiler (schema resolution)
    #[kani::proof]
    #[kani::unwind(3)]
    fn cmp_i64_column_vs_literal() {
        let x: i64 = kani::any();
        let v: i64 = kani::any();
        let op = any_cmp();
        let lit_left: bool = kani::any();
        let arr = Int64Array::new(ScalarBuffer::from(vec![x]), None);
        let (a, b) = if lit_left { (Src::LitI64(v), Src::Col(0)) } else { (Src::Col(0), Src::LitI64(v)) };
        let p = pred(vec![Instr::CmpI64 { a, b, op, dst: 0 }], 0, 0, 1);
        let got = run1(&p, &[ColArr::I64(&arr)]);
        let want = if lit_left { row_int(op, v, x) } else { row_int(op, x, v) };
        kani::cover!(got == 1 && lit_left);
        kani::cover!(got == 0 && !lit_left);
        assert!(got == want as u8, "C06.cmp_i64_matches_interpreter");
        std::mem::forget(p);
        std::mem::forget(arr);
    }

    // @harness tiers=quick,thorough timeout=900
    // @encodes physical::compiled_expr::CompiledPredicate::eval_chunk (Instr::CmpI32 over Int32 and Date32 columns)
    // @bounds 1 row; INTEGER or DATE column (symbolic choice), all i32 values and literals; 6 operators; literal on either side
    // @oracle mask bit == integer comparison
    #[kani::proof]
    #[kani::unwind(3)]
    fn cmp_i32_and_date32_column_vs_literal() {
        let x: i32 = kani::any();
        let v: i32 = kani::any();
        let op = any_cmp();
        let lit_left: bool = kani::any();
        let (a, b) = if lit_left { (Src::LitI32(v), Src::Col(0)) } else { (Src::Col(0), Src::LitI32(v)) };
        let p = pred(vec![Instr::CmpI32 { a, b, op, dst: 0 }], 0, 0, 1);
        let want = if lit_left { row_int(op, v as i64, x as i64) } else { row_int(op, x as i64, v as i64) };
        let got = if kani::any() {
            let arr = Int32Array::new(ScalarBuffer::from(vec![x]), None);
            let g = run1(&p, &[ColArr::I32(&arr)]);
            std::mem::forget(arr);
            g
        } else {
            let arr = Date32Array::new(ScalarBuffer::from(vec![x]), None);
            let g = run1(&p, &[ColArr::Date32(&arr)]);
            std::mem::forget(arr);
            g
        };
        kani::cover!(got == 1);
        kani::cover!(got == 0);
        assert!(got == want as u8, "C06.cmp_i32_matches_interpreter");
        std::mem::forget(p);
    }

    fn logic_case(is_and: bool, negate: bool) {
        let x: i64 = kani::any();
        let (v1, v2): (i64, i64) = kani::any();
        let (op1, op2) = (any_cmp(), any_cmp());
        let arr = Int64Array::new(ScalarBuffer::from(vec![x]), None);
        // the program lives in a local array; the Vec only borrows it (never dropped: forget below), so CBMC reads each
        // instruction's variant as the constant it is instead of exploring every instruction kind per slot
        let mut prog_arr = [
            Instr::CmpI64 { a: Src::Col(0), b: Src::LitI64(v1), op: op1, dst: 0 },
            Instr::CmpI64 { a: Src::Col(0), b: Src::LitI64(v2), op: op2, dst: 1 },
            if is_and { Instr::And { a: 0, b: 1, dst: 2 } } else { Instr::Or { a: 0, b: 1, dst: 2 } },
            Instr::Not { a: 2, dst: 3 },
        ];
        let prog = unsafe { Vec::from_raw_parts(prog_arr.as_mut_ptr(), 4, 4) };
        // ManuallyDrop: not even a panic unwinding during native replay may free the borrowed array
        let p = std::mem::ManuallyDrop::new(pred(prog, if negate { 3 } else { 2 }, 0, 4));
        let got = run1(&p, &[ColArr::I64(&arr)]);
        let (c1, c2) = (row_int(op1, x, v1), row_int(op2, x, v2));
        let inner = if is_and { c1 && c2 } else { c1 || c2 };
        let want = if negate { !inner } else { inner };
        kani::cover!(got == 1);
        kani::cover!(got == 0);
        assert!(got == want as u8, "C06.and_or_not_match_interpreter");
        std::mem::forget(p);
        std::mem::forget(prog_arr);
        std::mem::forget(arr);
    }

    // @harness tiers=quick,thorough timeout=900
    // @encodes physical::compiled_expr::CompiledPredicate::eval_chunk (Instr::And, Instr::Or, Instr::Not over mask registers)
    // @bounds 1 row; program = [x op1 v1 -> m0, x op2 v2 -> m1, (AND|OR) m0 m1 -> m2, NOT m2 -> m3] with symbolic operators/literals; the connective and the output register (m2 or m3) iterated concretely
    // @oracle two-valued AND / OR / NOT of the two comparison results (the rows are non-NULL here)
    // @unwindset extend_with:6
    // @unwindloop 6 for ins in &self.prog {
    #[kani::proof]
    #[kani::unwind(2)]
    fn and_or_not_over_two_comparisons() {
        logic_case(true, false);
        logic_case(false, true);
    }

    fn f64_case(special: bool) {
        let x: f64 = kani::any();
        let v: f64 = kani::any();
        // `special` = the region where IEEE comparison and totalOrder disagree: a NaN operand, or two zeros
        let is_special = x.is_nan() || v.is_nan() || (x == 0.0 && v == 0.0);
        kani::assume(is_special == special);
        let op = any_cmp();
        let lit_left: bool = kani::any();
        let arr = Float64Array::new(ScalarBuffer::from(vec![x]), None);
        let (a, b) = if lit_left { (Src::LitF64(v), Src::Col(0)) } else { (Src::Col(0), Src::LitF64(v)) };
        let p = pred(vec![Instr::CmpF64 { a, b, op, dst: 0 }], 0, 0, 1);
        let got = run1(&p, &[ColArr::F64(&arr)]);
        let want = if lit_left { row_f64(op, v, x) } else { row_f64(op, x, v) };
        kani::cover!(got == 1);
        kani::cover!(got == 0);
        assert!(got == want as u8, "C06.cmp_f64_matches_interpreter");
        std::mem::forget(p);
        std::mem::forget(arr);
    }

    // @harness tiers=quick,thorough timeout=900
    // @encodes physical::compiled_expr::CompiledPredicate::eval_chunk (Instr::CmpF64)
    // @bounds 1 row; DOUBLE column value and literal over all f64 EXCEPT the region pinned by kf_cmp_f64_nan_and_signed_zero (a NaN operand, or both operands zero); 6 operators; literal on either side
    // @oracle mask bit == totalOrder comparison (arrow-ord cmp), which coincides with IEEE comparison outside the excluded region
    #[kani::proof]
    #[kani::unwind(3)]
    fn cmp_f64_column_vs_literal() {
        f64_case(false);
    }

    // @harness tiers=quick,thorough timeout=900 finding=C06-f64-ieee-vs-total-order
    // @encodes physical::compiled_expr::CompiledPredicate::eval_chunk (Instr::CmpF64)
    // @bounds 1 row; ONLY the region where IEEE and totalOrder disagree: x or literal NaN, or both zero (any signs)
    // @oracle the interpreter (arrow-ord cmp) uses totalOrder: NaN = NaN is TRUE, -0.0 < 0.0 is TRUE
    #[kani::proof]
    #[kani::unwind(3)]
    fn kf_cmp_f64_nan_and_signed_zero() {
        f64_case(true);
    }

    // @harness tiers=experimental timeout=2400
    // @encodes physical::compiled_expr::CompiledPredicate::eval_chunk (Instr::LoadF64, Instr::LitF64, Instr::Arith, Instr::CmpF64 with a register source)
    // @bounds 1 row; program = [load x -> f0, lit c -> f1, f0 (+,-,*,/) f1 or f1 (..) f0 -> f2, f2 cmp lit v -> m0]; all f64 with the result of the arithmetic and v outside the NaN/both-zero region
    // @oracle the same IEEE operation applied in the same operand order, then the comparison (division by zero gives +-inf, never NULL)
    // @unwindset extend_with:6
    // @unwindloop 6 for ins in &self.prog {
    #[kani::proof]
    #[kani::unwind(2)]
    fn arith_then_compare_f64() {
        let x: f64 = kani::any();
        let c: f64 = kani::any();
        let v: f64 = kani::any();
        let k: u8 = kani::any();
        kani::assume(k < 4);
        let aop = match k {
            0 => BinaryOp::Add,
            1 => BinaryOp::Subtract,
            2 => BinaryOp::Multiply,
            _ => BinaryOp::Divide,
        };
        let swap: bool = kani::any();
        let (l, r) = if swap { (c, x) } else { (x, c) };
        let res = match k {
            0 => l + r,
            1 => l - r,
            2 => l * r,
            _ => l / r,
        };
        kani::assume(!(res.is_nan() || v.is_nan() || (res == 0.0 && v == 0.0)));
        let op = any_cmp();
        let arr = Float64Array::new(ScalarBuffer::from(vec![x]), None);
        let (ra, rb) = if swap { (1u8, 0u8) } else { (0u8, 1u8) };
        let mut prog_arr = [
            Instr::LoadF64 { col: 0, dst: 0 },
            Instr::LitF64 { v: c, dst: 1 },
            Instr::Arith { op: aop, a: ra, b: rb, dst: 2 },
            Instr::CmpF64 { a: Src::Reg(2), b: Src::LitF64(v), op, dst: 0 },
        ];
        let prog = unsafe { Vec::from_raw_parts(prog_arr.as_mut_ptr(), 4, 4) };
        let p = std::mem::ManuallyDrop::new(pred(prog, 0, 3, 1));
        let got = run1(&p, &[ColArr::F64(&arr)]);
        kani::cover!(got == 1 && k == 3 && swap);
        assert!(got == row_f64(op, res, v) as u8, "C06.arith_then_compare_matches_interpreter");
        std::mem::forget(p);
        std::mem::forget(prog_arr);
        std::mem::forget(arr);
    }

    // @playback
}
