// @target src/metastore/gravitino.rs
//
// Chunked transfer decoding (DESIGN §4/C41): dechunk vs a reference encoder, semi-concrete wire images.
#[cfg(kani)]
mod __verif_c41 {
    use super::*;

    const W: usize = 32;

    fn put(buf: &mut [u8; W], n: &mut usize, bytes: &[u8]) {
        let mut i = 0;
        while i < bytes.len() {
            buf[*n] = bytes[i];
            *n += 1;
            i += 1;
        }
    }

    fn hex_digit(v: usize, upper: bool) -> u8 {
        if v < 10 {
            b'0' + v as u8
        } else if upper {
            b'A' + (v as u8 - 10)
        } else {
            b'a' + (v as u8 - 10)
        }
    }

    /// reference encoder: one chunk = hex size [;ext] CRLF data CRLF
    fn put_chunk(buf: &mut [u8; W], n: &mut usize, data: &[u8], ext: bool, upper: bool) {
        put(buf, n, &[hex_digit(data.len(), upper)]);
        if ext {
            put(buf, n, b";x");
        }
        put(buf, n, b"\r\n");
        put(buf, n, data);
        put(buf, n, b"\r\n");
    }

    fn same(got: &Option<Vec<u8>>, want: &[u8]) -> bool {
        match got {
            None => false,
            Some(v) => {
                if v.len() != want.len() {
                    return false;
                }
                let mut i = 0;
                let mut ok = true;
                while i < want.len() {
                    ok &= v[i] == want[i];
                    i += 1;
                }
                ok
            }
        }
    }

    fn roundtrip_case(cut: usize) {
        let body: [u8; 3] = kani::any();
        let mut buf = [0u8; W];
        let mut n = 0usize;
        if cut > 0 {
            put_chunk(&mut buf, &mut n, &body[..cut], false, false);
        }
        if cut < 3 {
            put_chunk(&mut buf, &mut n, &body[cut..], false, false);
        }
        put(&mut buf, &mut n, b"0\r\n\r\n");
        let got = dechunk(&buf[..n]);
        kani::cover!(got.is_some());
        assert!(same(&got, &body), "C41.roundtrip");
        std::mem::forget(got);
    }

    // @harness tiers=quick,thorough
    // @encodes metastore::gravitino::dechunk
    // @bounds body of 3 symbolic bytes, split into 1 or 2 chunks at EVERY cut point 0..=3 (the cut is iterated concretely, the bytes are symbolic: CR, LF, digits, anything), no chunk extensions, terminating `0 CRLF CRLF`
    // @oracle dechunk(encode(body, cut)) == Some(body)
    // @out bodies longer than 3 bytes, more than 2 chunks, multi-digit chunk sizes other than the 16-digit case below
    // @unwindset memcmp#0:4 __verif_c41::put#0:8 __verif_c41::same#0:4 gravitino::dechunk#0:4
    #[kani::proof]
    #[kani::unwind(2)]
    fn roundtrip_every_split_of_3_bytes() {
        roundtrip_case(0);
        roundtrip_case(1);
        roundtrip_case(2);
        roundtrip_case(3);
    }

    // @harness tiers=quick,thorough
    // @encodes metastore::gravitino::dechunk
    // @bounds one chunk of 2 symbolic bytes whose size line carries a chunk extension (`2;x`), then the terminating chunk
    // @oracle RFC 9112 7.1.1: a recipient MUST ignore unrecognised chunk extensions, so the body decodes
    // @unwindset try_fold::#0:4 validations::run_utf8_validation#1:4 memcmp#0:4 __verif_c41::put#0:8 __verif_c41::same#0:4
    #[kani::proof]
    #[kani::unwind(2)]
    fn roundtrip_with_chunk_extension() {
        let body: [u8; 2] = kani::any();
        let mut buf = [0u8; W];
        let mut n = 0usize;
        put_chunk(&mut buf, &mut n, &body, true, false);
        put(&mut buf, &mut n, b"0\r\n\r\n");
        let got = dechunk(&buf[..n]);
        kani::cover!(got.is_some());
        assert!(same(&got, &body), "C41.roundtrip_with_extension");
        std::mem::forget(got);
    }

    fn hex_case(len: usize) {
        let upper: bool = kani::any();
        let data = [0u8; 15];
        let mut buf = [0u8; W];
        let mut n = 0usize;
        put_chunk(&mut buf, &mut n, &data[..len], false, upper);
        put(&mut buf, &mut n, b"0\r\n\r\n");
        let got = dechunk(&buf[..n]);
        kani::cover!(upper);
        assert!(matches!(&got, Some(v) if v.len() == len), "C41.hex_case_insensitive");
        std::mem::forget(got);
    }

    // @harness tiers=quick,thorough
    // @encodes metastore::gravitino::dechunk
    // @bounds one chunk of 12 bytes (concrete zero payload), size written as ONE hex digit in symbolic case (c / C)
    // @oracle hex sizes decode in either case: the body has the declared length
    // @unwindset memcmp#0:4 __verif_c41::put#0:16
    #[kani::proof]
    #[kani::unwind(2)]
    fn hex_size_in_either_case() {
        hex_case(12);
    }

    // @harness tiers=thorough timeout=2400
    // @encodes metastore::gravitino::dechunk
    // @bounds as hex_size_in_either_case for lengths 10 and 15 (a/A, f/F)
    // @oracle as hex_size_in_either_case
    // @unwindset memcmp#0:4 __verif_c41::put#0:16
    #[kani::proof]
    #[kani::unwind(2)]
    fn hex_sizes_other_digits() {
        hex_case(10);
        hex_case(15);
    }

    fn truncated_case(d: usize, have: usize) {
        let tail: [u8; 4] = kani::any();
        let mut buf = [0u8; W];
        let mut n = 0usize;
        put(&mut buf, &mut n, &[hex_digit(d, false)]);
        put(&mut buf, &mut n, b"\r\n");
        put(&mut buf, &mut n, &tail[..have]);
        let got = dechunk(&buf[..n]);
        kani::cover!(got.is_none());
        assert!(got.is_none(), "C41.truncated_chunk_rejected");
        std::mem::forget(got);
    }

    // @harness tiers=quick,thorough
    // @encodes metastore::gravitino::dechunk
    // @bounds declared size d in 1..=3 followed by FEWER than d + 2 bytes, every shortfall (all 9 (d, have) pairs iterated concretely, the bytes themselves symbolic): a body cut short anywhere inside the chunk or its CRLF
    // @oracle truncated chunk data is rejected (None), never returned as a shorter body
    // @unwindset memcmp#0:4 __verif_c41::put#0:8
    #[kani::proof]
    #[kani::unwind(2)]
    fn truncated_chunk_is_rejected() {
        truncated_case(1, 0);
        truncated_case(1, 1);
        truncated_case(1, 2);
        truncated_case(2, 0);
        truncated_case(2, 2);
        truncated_case(2, 3);
        truncated_case(3, 1);
        truncated_case(3, 3);
        truncated_case(3, 4);
    }

    // @harness tiers=quick,thorough
    // @encodes metastore::gravitino::dechunk
    // @bounds one chunk of 1 byte whose data is followed by two symbolic bytes that are NOT CRLF, then a well-formed terminating chunk
    // @oracle malformed framing (chunk data not terminated by CRLF) is rejected
    // @unwindset memcmp#0:4 __verif_c41::put#0:8
    #[kani::proof]
    #[kani::unwind(2)]
    fn chunk_data_must_end_with_crlf() {
        let x: u8 = kani::any();
        let t: [u8; 2] = kani::any();
        kani::assume(!(t[0] == b'\r' && t[1] == b'\n'));
        let mut buf = [0u8; W];
        let mut n = 0usize;
        put(&mut buf, &mut n, b"1\r\n");
        put(&mut buf, &mut n, &[x]);
        put(&mut buf, &mut n, &t);
        put(&mut buf, &mut n, b"0\r\n\r\n");
        let got = dechunk(&buf[..n]);
        kani::cover!(t[0] == b'\r');
        assert!(got.is_none(), "C41.chunk_without_crlf_rejected");
        std::mem::forget(got);
    }

    fn huge_case(k: usize) {
        let digits: [u8; 16] = kani::any();
        let mut buf = [0u8; W];
        let mut n = 0usize;
        let mut i = 0;
        while i < 16 {
            kani::assume(digits[i] < 16);
            buf[n] = hex_digit(digits[i] as usize, false);
            n += 1;
            i += 1;
        }
        put(&mut buf, &mut n, b"\r\n");
        let tail: [u8; 2] = kani::any();
        put(&mut buf, &mut n, &tail[..k]);
        kani::assume(digits[0] > 0); // size >= 2^60: certainly more than the 0..=2 bytes that follow
        let got = dechunk(&buf[..n]);
        kani::cover!(digits[0] == 15 && digits[15] == 15);
        kani::cover!(digits[0] == 15 && digits[15] == 14);
        assert!(got.is_none(), "C41.oversized_chunk_rejected");
        std::mem::forget(got);
    }

    // @harness tiers=experimental timeout=2400
    // @encodes metastore::gravitino::dechunk
    // @bounds size line = 16 symbolic hex digits (any size >= 2^60, e.g. ffffffffffffffff and fffffffffffffffe), CRLF, then 0 or 2 symbolic bytes
    // @oracle no panic (no overflow in `size + 2`, no out-of-range slice); a declared size larger than what follows is rejected
    // @unwindset metastore::gravitino::dechunk:2 is_whitespace:3 CharSearcher:3
    #[kani::proof]
    #[kani::unwind(20)]
    fn huge_declared_size_does_not_panic() {
        huge_case(0);
        huge_case(2);
    }

    // @harness tiers=thorough timeout=2400
    // @encodes metastore::gravitino::dechunk
    // @bounds size line = 17 symbolic hex digits with a non-zero leading digit (a size >= 2^64 that no usize can hold), CRLF, then `hello CRLF 0 CRLF CRLF`
    // @oracle a chunk size that does not fit in usize is malformed framing: rejected, never reduced modulo 2^64 (which would make 10000000000000005 decode as 5, or 10000000000000000 look like the terminator)
    // @unwindset try_fold::#0:32 ::from_ascii_bytes_radix_impl#2:32 memcmp#0:4 __verif_c41::size_beyond_usize_is_rejected_not_wrapped#0:32 __verif_c41::size_beyond_usize_is_rejected_not_wrapped#1:16
    #[kani::proof]
    #[kani::unwind(2)]
    fn size_beyond_usize_is_rejected_not_wrapped() {
        let digits: [u8; 17] = kani::any();
        let mut buf = [0u8; 40];
        let mut n = 0usize;
        let mut i = 0;
        while i < 17 {
            kani::assume(digits[i] < 16);
            buf[n] = hex_digit(digits[i] as usize, false);
            n += 1;
            i += 1;
        }
        kani::assume(digits[0] > 0);
        let tail = b"\r\nhello\r\n0\r\n\r\n";
        let mut j = 0;
        while j < tail.len() {
            buf[n] = tail[j];
            n += 1;
            j += 1;
        }
        let got = dechunk(&buf[..n]);
        kani::cover!(digits[16] == 5 && digits[1] == 0);
        assert!(got.is_none(), "C41.size_beyond_usize_rejected");
        std::mem::forget(got);
    }

    fn bad_size_line_case(shape: u8) {
        let x: u8 = kani::any();
        let mut buf = [0u8; W];
        let mut n = 0usize;
        // a well-formed first chunk, then a size line that is not a chunk size
        put(&mut buf, &mut n, b"1\r\na\r\n");
        match shape {
            0 => {}                                   // empty line
            1 => {
                // one byte that is neither a hex digit nor blank
                kani::assume(!x.is_ascii_hexdigit() && x != b' ' && x != b'\t' && x != b'\r' && x != b'\n' && x < 0x80 && x != 0x0b && x != 0x0c);
                put(&mut buf, &mut n, &[x]);
            }
            2 => put(&mut buf, &mut n, b";x"),        // an extension with no size in front of it
            _ => put(&mut buf, &mut n, b" "),         // blanks only
        }
        put(&mut buf, &mut n, b"\r\n");
        let got = dechunk(&buf[..n]);
        kani::cover!(got.is_none());
        assert!(got.is_none(), "C41.malformed_size_line_rejected");
        std::mem::forget(got);
    }

    // @harness tiers=quick,thorough
    // @encodes metastore::gravitino::dechunk
    // @bounds after one well-formed chunk, a size line that is empty, blank, a bare extension `;x`, or one symbolic non-hex ASCII byte (four shapes iterated concretely), then end of input
    // @oracle a frame whose size line carries no hexadecimal size is malformed: rejected, never treated as the terminating chunk
    // @unwindset try_fold::#0:4 validations::run_utf8_validation#2:4 memcmp#0:4 __verif_c41::put#0:8
    #[kani::proof]
    #[kani::unwind(2)]
    fn malformed_size_line_is_rejected() {
        bad_size_line_case(0);
        bad_size_line_case(1);
        bad_size_line_case(2);
        bad_size_line_case(3);
    }

    // @playback
}
