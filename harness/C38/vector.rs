// @target src/physical/vector.rs
//
// Vector distance slice kernels in the exact-integer regime (DESIGN §4/C38): components are small
// integer-valued f32, so every product and partial sum is exact in f32 and f64 and "within float tolerance"
// becomes equality with an integer oracle. The component range is kept small because equivalence of a
// floating-point multiplier with an integer multiplier is the classic hard case for SAT (measured: |x| <= 512
// at dimension 3 did not finish in 420 s; |x| <= 15 takes 55 s; |x| <= 2 takes 10 s).
#[cfg(kani)]
mod __verif_c38 {
    use super::*;

    fn small_vec<const D: usize>(lim: i8) -> ([f32; D], [i32; D]) {
        let k: [i8; D] = kani::any();
        let mut f = [0f32; D];
        let mut n = [0i32; D];
        let mut i = 0;
        while i < D {
            kani::assume(k[i] >= -lim && k[i] <= lim);
            f[i] = k[i] as f32;
            n[i] = k[i] as i32;
            i += 1;
        }
        (f, n)
    }

    fn check_dot<const D: usize>(lim: i8) {
        let (a, ai) = small_vec::<D>(lim);
        let (b, bi) = small_vec::<D>(lim);
        let mut want = 0i32;
        let mut i = 0;
        while i < D {
            want += ai[i] * bi[i];
            i += 1;
        }
        let got = dot(&a, &b);
        kani::cover!(want < 0);
        kani::cover!(want > 3);
        assert!(got == want as f64, "C38.dot_is_sum_of_products");
    }

    fn check_l2<const D: usize>(lim: i8) {
        let (a, ai) = small_vec::<D>(lim);
        let (b, bi) = small_vec::<D>(lim);
        let mut want = 0i32;
        let mut i = 0;
        while i < D {
            let d = ai[i] - bi[i];
            want += d * d;
            i += 1;
        }
        let got = l2_sq(&a, &b);
        kani::cover!(want > 3);
        kani::cover!(want == 0);
        assert!(got == want as f64, "C38.l2_sq_is_sum_of_squared_differences");
    }

    // @harness tiers=quick,thorough
    // @encodes physical::vector::dot
    // @bounds dimension 9 (one full 8-lane chunk + remainder of 1, so every lane and the junction are exercised); integer-valued components |x| <= 2
    // @oracle dot(a,b) == sum a_i*b_i computed in integers (a mis-indexed lane, a dropped remainder or a wrong sign changes the sum for some assignment)
    // @out general floats (tolerance reasoning), larger magnitudes, dimensions beyond the stated one, NULL rows / slicing / dimension mismatch (Arrow FixedSizeListArray)
    #[kani::proof]
    #[kani::unwind(11)]
    fn dot_dim9() {
        check_dot::<9>(2);
    }

    // @harness tiers=quick,thorough
    // @encodes physical::vector::dot
    // @bounds dimension 3 (remainder loop only); integer-valued components |x| <= 15
    // @oracle as dot_dim9
    #[kani::proof]
    #[kani::unwind(10)]
    fn dot_dim3_wider_values() {
        check_dot::<3>(15);
    }

    // @harness tiers=quick,thorough
    // @encodes physical::vector::l2_sq
    // @bounds dimension 9; integer-valued components |x| <= 2
    // @oracle l2_sq(a,b) == sum (a_i-b_i)^2 in integers (0 for equal vectors)
    #[kani::proof]
    #[kani::unwind(11)]
    fn l2_sq_dim9() {
        check_l2::<9>(2);
    }

    // @harness tiers=experimental timeout=2400
    // @encodes physical::vector::dot
    // @bounds dimension 17 (two full chunks, so the f32 lane accumulators really add, + remainder of 1); |x| <= 2
    // @oracle as dot_dim9
    #[kani::proof]
    #[kani::unwind(19)]
    fn dot_dim17() {
        check_dot::<17>(2);
    }

    // @harness tiers=experimental timeout=2400
    // @encodes physical::vector::l2_sq
    // @bounds dimension 17; |x| <= 2
    // @oracle as l2_sq_dim9
    #[kani::proof]
    #[kani::unwind(19)]
    fn l2_sq_dim17() {
        check_l2::<17>(2);
    }

    // @harness tiers=thorough timeout=2400
    // @encodes physical::vector::dot, physical::vector::l2_sq
    // @bounds dimension 16 (two full 8-lane chunks: the f32 lane accumulators really add, empty remainder); components in {-1, 0, 1}
    // @oracle integer formulas as in dot_dim9 / l2_sq_dim9
    #[kani::proof]
    #[kani::unwind(18)]
    fn dot_and_l2_dim16_unit_components() {
        check_dot::<16>(1);
        check_l2::<16>(1);
    }

    // @harness tiers=thorough timeout=2400
    // @encodes physical::vector::norm, physical::vector::dot
    // @bounds dimension 2, integer-valued components |x| <= 4
    // @oracle norm(a) is the correctly rounded sqrt of dot(a,a): exact for perfect squares (3,4 -> 5), zero for the zero vector, and norm(a)^2 within 2^-51 relative of dot(a,a)
    #[kani::proof]
    #[kani::unwind(10)]
    fn norm_dim2() {
        let (a, ai) = small_vec::<2>(4);
        let sq = (ai[0] * ai[0] + ai[1] * ai[1]) as f64;
        let n = norm(&a);
        kani::cover!(sq == 25.0);
        assert!(n >= 0.0, "C38.norm_non_negative");
        if sq == 0.0 {
            assert!(n == 0.0, "C38.norm_of_zero_vector");
        }
        if sq == 25.0 {
            assert!(n == 5.0, "C38.norm_exact_on_perfect_squares");
        }
        let back = n * n;
        let err = if back > sq { back - sq } else { sq - back };
        assert!(err <= sq * (1.0 / 2251799813685248.0), "C38.norm_is_sqrt_of_dot");
    }

    // @playback
}
