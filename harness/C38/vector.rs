// @target src/physical/vector.rs
//
// Vector distance slice kernels in the exact-integer regime (DESIGN §4/C38): components are integer-valued
// f32 with |x| <= 2^9, so every product and partial sum is exact in f32 and f64 and "within float tolerance"
// becomes equality with an integer oracle.
#[cfg(kani)]
mod __verif_c38 {
    use super::*;

    fn any_vec<const D: usize>() -> ([f32; D], [i64; D]) {
        let k: [i16; D] = kani::any();
        let mut f = [0f32; D];
        let mut n = [0i64; D];
        let mut i = 0;
        while i < D {
            kani::assume(k[i] >= -512 && k[i] <= 512);
            f[i] = k[i] as f32;
            n[i] = k[i] as i64;
            i += 1;
        }
        (f, n)
    }

    fn check_dot<const D: usize>() {
        let (a, ai) = any_vec::<D>();
        let (b, bi) = any_vec::<D>();
        let mut want = 0i64;
        let mut i = 0;
        while i < D {
            want += ai[i] * bi[i];
            i += 1;
        }
        let got = dot(&a, &b);
        kani::cover!(want < 0);
        assert!(got == want as f64, "C38.dot_is_sum_of_products");
        assert!(dot(&b, &a) == got, "C38.dot_symmetric");
    }

    fn check_l2<const D: usize>() {
        let (a, ai) = any_vec::<D>();
        let (b, bi) = any_vec::<D>();
        let mut want = 0i64;
        let mut i = 0;
        while i < D {
            let d = ai[i] - bi[i];
            want += d * d;
            i += 1;
        }
        let got = l2_sq(&a, &b);
        kani::cover!(want > 0);
        assert!(got == want as f64, "C38.l2_sq_is_sum_of_squared_differences");
        assert!(l2_sq(&a, &a) == 0.0, "C38.l2_sq_of_equal_vectors_is_zero");
    }

    // @harness tiers=quick,thorough
    // @encodes physical::vector::dot
    // @bounds dimension 9 (one full 8-lane chunk + remainder of 1); integer-valued components |x| <= 512
    // @oracle dot(a,b) == sum a_i*b_i computed in i64; symmetric
    #[kani::proof]
    #[kani::unwind(11)]
    fn dot_dim9() {
        check_dot::<9>();
    }

    // @harness tiers=quick,thorough
    // @encodes physical::vector::dot
    // @bounds dimension 3 (remainder loop only); integer-valued components |x| <= 512
    // @oracle as dot_dim9
    #[kani::proof]
    #[kani::unwind(10)]
    fn dot_dim3() {
        check_dot::<3>();
    }

    // @harness tiers=quick,thorough
    // @encodes physical::vector::l2_sq
    // @bounds dimension 9; integer-valued components |x| <= 512
    // @oracle l2_sq(a,b) == sum (a_i-b_i)^2 in i64; l2_sq(a,a) == 0
    #[kani::proof]
    #[kani::unwind(11)]
    fn l2_sq_dim9() {
        check_l2::<9>();
    }

    // @harness tiers=quick,thorough
    // @encodes physical::vector::norm, physical::vector::dot
    // @bounds dimension 2, integer-valued components |x| <= 512
    // @oracle norm(a)^2 recovers dot(a,a) up to one rounding of sqrt: |norm(a)^2 - dot(a,a)| <= dot(a,a) * 2^-51; norm of the zero vector is 0
    #[kani::proof]
    #[kani::unwind(10)]
    fn norm_dim2() {
        let (a, ai) = any_vec::<2>();
        let sq = (ai[0] * ai[0] + ai[1] * ai[1]) as f64;
        let n = norm(&a);
        kani::cover!(sq == 25.0 && n == 5.0);
        assert!(n >= 0.0, "C38.norm_non_negative");
        if sq == 0.0 {
            assert!(n == 0.0, "C38.norm_of_zero_vector");
        }
        let back = n * n;
        let err = if back > sq { back - sq } else { sq - back };
        assert!(err <= sq * (1.0 / 2251799813685248.0), "C38.norm_is_sqrt_of_dot");
    }

    // @harness tiers=thorough timeout=2400
    // @encodes physical::vector::dot
    // @bounds dimension 17 (two full chunks, so the f32 lane accumulators add, + remainder of 1); |x| <= 512
    // @oracle as dot_dim9
    #[kani::proof]
    #[kani::unwind(19)]
    fn dot_dim17() {
        check_dot::<17>();
    }

    // @harness tiers=thorough timeout=2400
    // @encodes physical::vector::l2_sq
    // @bounds dimension 17; |x| <= 512
    // @oracle as l2_sq_dim9
    #[kani::proof]
    #[kani::unwind(19)]
    fn l2_sq_dim17() {
        check_l2::<17>();
    }

    // @playback
}
