// @target src/physical/operators/limit.rs
//
// LIMIT/OFFSET state machine (DESIGN §4/C25): one inductive step of LimitState::take_from from an
// arbitrary valid state, on a zero-column RecordBatch whose row count is symbolic.
#[cfg(kani)]
mod __verif_c25 {
    use super::*;
    use arrow::datatypes::Schema;
    use arrow::record_batch::RecordBatchOptions;

    #[derive(Debug)]
    struct Dummy;

    #[async_trait]
    impl PhysicalOperator for Dummy {
        fn schema(&self) -> SchemaRef {
            unreachable!()
        }
        fn children(&self) -> Vec<Arc<dyn PhysicalOperator>> {
            Vec::new()
        }
        async fn execute(&self, _partition: usize) -> Result<RecordBatchStream> {
            unreachable!()
        }
        fn name(&self) -> &str {
            "dummy"
        }
    }

    fn fixed_random_state() -> std::hash::RandomState {
        unsafe { std::mem::transmute::<(u64, u64), std::hash::RandomState>((1, 2)) }
    }

    fn step(fetch: Option<usize>) {
        let skip: usize = kani::any();
        let skipped: usize = kani::any();
        let fetched: usize = kani::any();
        let n: usize = kani::any();
        // representation invariant of a state reachable from (skipped=0, fetched=0)
        kani::assume(skipped <= skip);
        if let Some(l) = fetch {
            kani::assume(fetched <= l);
        }
        kani::assume(skipped == skip || fetched == 0);
        // rows emitted so far came from real batches: their total fits in usize together with this batch
        kani::assume(fetched.checked_add(n).is_some());
        let mut st = LimitState {
            input: Arc::new(Dummy),
            input_partitions: 1,
            next_partition: 0,
            current: None,
            skip,
            fetch,
            skipped,
            fetched,
            failed: false,
        };
        let batch = RecordBatch::try_new_with_options(
            Arc::new(Schema::empty()),
            vec![],
            &RecordBatchOptions::new().with_row_count(Some(n)),
        )
        .unwrap();
        let out = st.take_from(batch);
        // oracle: rows [to_skip, to_skip + emit) of this batch
        let to_skip = (skip - skipped).min(n);
        let avail = n - to_skip;
        let emit = match fetch {
            Some(l) => (l - fetched).min(avail),
            None => avail,
        };
        kani::cover!(to_skip > 0 && emit > 0 && emit < avail);
        kani::cover!(out.is_none());
        match &out {
            None => assert!(emit == 0, "C25.none_only_when_nothing_to_emit"),
            Some(b) => {
                assert!(emit > 0, "C25.some_only_when_rows_to_emit");
                assert!(b.num_rows() == emit, "C25.emits_exactly_the_window_rows");
            }
        }
        assert!(st.skipped == skipped + to_skip, "C25.skipped_advances_by_rows_skipped");
        assert!(st.fetched == fetched + emit, "C25.fetched_advances_by_rows_emitted");
        // invariant preserved => by induction over batches the output is rows m+1..m+n of the input order
        assert!(st.skipped <= st.skip, "C25.inv_skipped_le_skip");
        if let Some(l) = fetch {
            assert!(st.fetched <= l, "C25.inv_fetched_le_limit");
            assert!(st.satisfied() == (st.fetched >= l), "C25.satisfied_iff_limit_reached");
        } else {
            assert!(!st.satisfied(), "C25.no_limit_never_satisfied");
        }
        assert!(st.skipped == st.skip || st.fetched == 0, "C25.inv_no_output_before_offset_consumed");
        std::mem::forget(out);
        std::mem::forget(st);
    }

    // @harness tiers=quick,thorough
    // @encodes physical::operators::limit::LimitState::take_from, physical::operators::limit::LimitState::satisfied
    // @bounds one step from ANY state satisfying the invariant (skipped <= skip, fetched <= limit, no output before the offset is consumed); any skip, limit, counters and batch row count in usize (fetched + n must fit in usize); zero-column batch, so only row counts are observable
    // @oracle output = rows [to_skip, to_skip+emit) with to_skip = min(skip-skipped, n), emit = min(limit-fetched, n-to_skip); None iff emit = 0; counters advance by exactly those amounts; invariant preserved
    // @out which rows (offsets inside the slice) -- checked by take_from_slice_offsets; ORDER BY itself; the partition-draining loop
    #[kani::proof]
    #[kani::unwind(3)]
    #[kani::stub(std::hash::RandomState::new, fixed_random_state)]
    fn take_from_step_with_limit() {
        step(Some(kani::any()));
    }

    // @harness tiers=quick,thorough
    // @encodes physical::operators::limit::LimitState::take_from, physical::operators::limit::LimitState::satisfied
    // @bounds as take_from_step_with_limit, OFFSET without LIMIT (fetch = None)
    // @oracle as take_from_step_with_limit
    #[kani::proof]
    #[kani::unwind(3)]
    #[kani::stub(std::hash::RandomState::new, fixed_random_state)]
    fn take_from_step_offset_only() {
        step(None);
    }

    // @playback
}
