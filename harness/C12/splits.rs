// @target src/distributed/splits.rs
#[cfg(kani)]
mod __verif_c12 {
    use super::*;

    /// A split set of exactly K splits in canonical order (row_group = position), symbolic sizes and rows.
    /// `bytes < 2^32` so u64 sums and the 3N / (4N-1) products below cannot wrap; zero sizes and ties included.
    fn any_set<const K: usize>() -> (SplitSet, [u64; K], [i64; K]) {
        let bytes: [u64; K] = kani::any();
        let rows: [i64; K] = kani::any();
        let mut splits = Vec::with_capacity(K);
        let mut total = 0u64;
        let mut total_rows = 0i64;
        let mut i = 0;
        while i < K {
            kani::assume(bytes[i] < (1u64 << 32));
            kani::assume(rows[i] >= 0 && rows[i] < (1i64 << 32));
            total += bytes[i];
            total_rows += rows[i];
            splits.push(Split {
                table: String::new(),
                path: PathBuf::new(),
                file: String::new(),
                row_group: i,
                row_offset: 0,
                num_rows: rows[i],
                bytes: bytes[i],
            });
            i += 1;
        }
        (
            SplitSet { table: String::new(), splits, total_bytes: total, total_rows, target_split_bytes: MAX_SPLIT_BYTES },
            bytes,
            rows,
        )
    }

    fn partition_and_sums<const K: usize>(nodes: usize) {
        let (set, bytes, rows) = any_set::<K>();
        let a = assign_lpt(&set, nodes);
        let n = nodes.max(1);
        assert!(a.nodes == n, "C12.nodes_zero_behaves_as_one");
        assert!(a.per_node.len() == n && a.node_bytes.len() == n && a.node_rows.len() == n && a.node_splits.len() == n,
            "C12.one_entry_per_node");
        assert!(a.total_bytes == set.total_bytes, "C12.total_bytes_copied");
        // every split index appears in exactly one per_node list, exactly once
        let mut seen = [0u8; K];
        let mut sum_bytes = 0u64;
        let mut node = 0;
        while node < n {
            let owned = &a.per_node[node];
            let mut nb = 0u64;
            let mut nr = 0i64;
            let mut j = 0;
            while j < owned.len() {
                let idx = owned[j];
                assert!(idx < K, "C12.index_in_range");
                seen[idx] += 1;
                nb += bytes[idx];
                nr += rows[idx];
                if j > 0 {
                    // canonical order inside a node == ascending position, as the set is canonical
                    assert!(owned[j - 1] < idx, "C12.per_node_in_canonical_order");
                }
                j += 1;
            }
            assert!(a.node_bytes[node] == nb, "C12.node_bytes_is_sum_of_owned");
            assert!(a.node_rows[node] == nr, "C12.node_rows_is_sum_of_owned");
            assert!(a.node_splits[node] == owned.len(), "C12.node_splits_is_count_of_owned");
            sum_bytes += nb;
            node += 1;
        }
        let mut k = 0;
        while k < K {
            assert!(seen[k] == 1, "C12.every_split_exactly_once");
            k += 1;
        }
        assert!(sum_bytes == set.total_bytes, "C12.loads_sum_to_table");
        // idle nodes are exactly the nodes that own nothing
        let idle = a.idle_nodes();
        let mut want_idle = 0usize;
        let mut m = 0;
        while m < n {
            let is_idle = a.per_node[m].is_empty();
            let mut listed = false;
            let mut q = 0;
            while q < idle.len() {
                listed |= idle[q] == m;
                q += 1;
            }
            assert!(listed == is_idle, "C12.idle_nodes_are_the_empty_ones");
            if is_idle {
                want_idle += 1;
            }
            m += 1;
        }
        assert!(idle.len() == want_idle, "C12.idle_nodes_no_duplicates");
        kani::cover!(K >= 2 && n >= 2 && a.node_splits[0] >= 1 && a.node_splits[1] >= 1);
        std::mem::forget(a);
        std::mem::forget(set);
    }

    /// LPT <= (4/3 - 1/(3N)) * OPT, against EVERY competitor assignment `alt` (universally quantified by
    /// the solver), stated in integers: 3N * max(node_bytes) <= (4N - 1) * makespan(alt).
    fn lpt_bound<const K: usize, const N: usize>() {
        let (set, bytes, _rows) = any_set::<K>();
        let a = assign_lpt(&set, N);
        let mut lpt_max = 0u64;
        let mut i = 0;
        while i < N {
            if a.node_bytes[i] > lpt_max {
                lpt_max = a.node_bytes[i];
            }
            i += 1;
        }
        let alt: [usize; K] = kani::any();
        let mut load = [0u64; N];
        let mut j = 0;
        while j < K {
            kani::assume(alt[j] < N);
            load[alt[j]] += bytes[j];
            j += 1;
        }
        let mut alt_max = 0u64;
        let mut k = 0;
        while k < N {
            if load[k] > alt_max {
                alt_max = load[k];
            }
            k += 1;
        }
        kani::cover!(lpt_max > alt_max && alt_max > 0);
        assert!(
            (3 * N as u64) * lpt_max <= (4 * N as u64 - 1) * alt_max,
            "C12.lpt_within_four_thirds_minus_one_over_3n_of_any_assignment"
        );
        std::mem::forget(a);
        std::mem::forget(set);
    }

    // @harness tiers=quick,thorough
    // @encodes distributed::splits::assign_lpt, distributed::splits::Assignment::idle_nodes, distributed::splits::Split::canonical_key
    // @bounds 3 splits, nodes in {0,1,2,3,4} (symbolic), bytes < 2^32, rows in [0,2^32); ties and zero sizes included
    // @oracle partition (each index exactly once), per-node bytes/rows/counts are the sums over owned splits, canonical order per node, idle_nodes = empty nodes, nodes=0 behaves as 1
    #[kani::proof]
    #[kani::unwind(6)]
    fn partition_and_sums_3_splits() {
        let nodes: usize = kani::any();
        kani::assume(nodes <= 4);
        partition_and_sums::<3>(nodes);
    }

    // @harness tiers=quick,thorough
    // @encodes distributed::splits::assign_lpt, distributed::splits::Assignment::idle_nodes
    // @bounds 5 splits, 3 nodes, bytes < 2^32, rows in [0,2^32)
    // @oracle as partition_and_sums_3_splits
    #[kani::proof]
    #[kani::unwind(7)]
    fn partition_and_sums_5_splits_3_nodes() {
        partition_and_sums::<5>(3);
    }

    // @harness tiers=quick,thorough
    // @encodes distributed::splits::assign_lpt
    // @bounds 4 splits, 2 nodes, bytes < 2^32; competitor assignment alt in {0,1}^4 symbolic
    // @oracle 3N*max(node_bytes) <= (4N-1)*makespan(alt) for every alt, i.e. LPT <= (4/3 - 1/(3N)) OPT
    #[kani::proof]
    #[kani::unwind(6)]
    fn lpt_bound_4_splits_2_nodes() {
        lpt_bound::<4, 2>();
    }

    // @harness tiers=quick,thorough
    // @encodes distributed::splits::assign_lpt
    // @bounds 5 splits, 3 nodes, bytes < 2^32; competitor alt in {0,1,2}^5 symbolic
    // @oracle 3N*max(node_bytes) <= (4N-1)*makespan(alt) for every alt
    #[kani::proof]
    #[kani::unwind(7)]
    fn lpt_bound_5_splits_3_nodes() {
        lpt_bound::<5, 3>();
    }

    // @harness tiers=thorough
    // @encodes distributed::splits::assign_lpt
    // @bounds 6 splits, 3 nodes, bytes < 2^32; competitor alt symbolic
    // @oracle 3N*max(node_bytes) <= (4N-1)*makespan(alt) for every alt
    #[kani::proof]
    #[kani::unwind(8)]
    fn lpt_bound_6_splits_3_nodes() {
        lpt_bound::<6, 3>();
    }

    // @harness tiers=thorough
    // @encodes distributed::splits::assign_lpt
    // @bounds 6 splits, 4 nodes, bytes < 2^32; competitor alt symbolic
    // @oracle 3N*max(node_bytes) <= (4N-1)*makespan(alt) for every alt
    #[kani::proof]
    #[kani::unwind(8)]
    fn lpt_bound_6_splits_4_nodes() {
        lpt_bound::<6, 4>();
    }

    // @playback
}
