// @target src/distributed/splits.rs
//
// LPT assignment (DESIGN §4/C12, §0). The split set lives in a LOCAL ARRAY that `set.splits` only borrows
// (Vec::from_raw_parts, never dropped), so the (empty) table/file strings compared by the canonical key read back as
// constants instead of unknown heap bytes.
#[cfg(kani)]
mod __verif_c12 {
    use super::*;

    struct Fixture<const K: usize> {
        arr: [Split; K],
        bytes: [u64; K],
        rows: [i64; K],
    }

    fn any_fixture<const K: usize>() -> Fixture<K> {
        let bytes: [u64; K] = std::array::from_fn(|_| kani::any());
        let rows: [i64; K] = std::array::from_fn(|_| kani::any());
        let mut i = 0;
        while i < K {
            kani::assume(bytes[i] < (1u64 << 32));
            kani::assume(rows[i] >= 0 && rows[i] < (1i64 << 32));
            i += 1;
        }
        let arr: [Split; K] = std::array::from_fn(|i| Split {
            table: String::new(),
            path: PathBuf::new(),
            file: String::new(),
            row_group: i,
            row_offset: 0,
            num_rows: rows[i],
            bytes: bytes[i],
        });
        Fixture { arr, bytes, rows }
    }

    fn set_over<const K: usize>(f: &mut Fixture<K>) -> std::mem::ManuallyDrop<SplitSet> {
        let mut total = 0u64;
        let mut total_rows = 0i64;
        let mut i = 0;
        while i < K {
            total += f.bytes[i];
            total_rows += f.rows[i];
            i += 1;
        }
        std::mem::ManuallyDrop::new(SplitSet {
            table: String::new(),
            splits: unsafe { Vec::from_raw_parts(f.arr.as_mut_ptr(), K, K) },
            total_bytes: total,
            total_rows,
            target_split_bytes: MAX_SPLIT_BYTES,
        })
    }

    fn partition_and_sums<const K: usize>(nodes: usize) {
        let mut f = any_fixture::<K>();
        let set = set_over(&mut f);
        let a = std::mem::ManuallyDrop::new(assign_lpt(&set, nodes));
        let n = nodes.max(1);
        assert!(a.nodes == n, "C12.nodes_zero_behaves_as_one");
        assert!(a.per_node.len() == n && a.node_bytes.len() == n && a.node_rows.len() == n && a.node_splits.len() == n, "C12.one_entry_per_node");
        assert!(a.total_bytes == set.total_bytes, "C12.total_bytes_copied");
        let mut seen = [0u8; K];
        let mut sum_bytes = 0u64;
        let mut node = 0;
        while node < n {
            let owned = &a.per_node[node];
            let (mut nb, mut nr) = (0u64, 0i64);
            let mut j = 0;
            while j < owned.len() {
                let idx = owned[j];
                assert!(idx < K, "C12.index_in_range");
                seen[idx] += 1;
                nb += f.bytes[idx];
                nr += f.rows[idx];
                if j > 0 {
                    assert!(owned[j - 1] < idx, "C12.per_node_in_canonical_order");
                }
                j += 1;
            }
            assert!(a.node_bytes[node] == nb, "C12.node_bytes_is_sum_of_owned");
            assert!(a.node_rows[node] == nr, "C12.node_rows_is_sum_of_owned");
            assert!(a.node_splits[node] == owned.len(), "C12.node_splits_is_count_of_owned");
            sum_bytes += nb;
            node += 1;
        }
        let mut k = 0;
        while k < K {
            assert!(seen[k] == 1, "C12.every_split_exactly_once");
            k += 1;
        }
        assert!(sum_bytes == set.total_bytes, "C12.loads_sum_to_table");
        kani::cover!(K >= 2 && n >= 2 && a.node_splits[0] >= 1 && a.node_splits[1] >= 1);
    }

    // @harness tiers=experimental timeout=2400
    // @encodes distributed::splits::assign_lpt, distributed::splits::Split::canonical_key
    // @bounds 3 splits, 2 nodes, bytes < 2^32, rows in [0,2^32); ties and zero sizes included
    // @oracle partition (each index exactly once), per-node bytes/rows/counts are the sums over owned splits, canonical order per node
    #[kani::proof]
    #[kani::unwind(5)]
    fn partition_and_sums_3_splits_2_nodes() {
        partition_and_sums::<3>(2);
    }

    // @playback
}
