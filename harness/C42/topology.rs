// @target src/execution/topology.rs
#[cfg(kani)]
mod __verif_c42 {
    use super::*;

    // @harness tiers=quick,thorough
    // @encodes execution::topology::workers_for
    // @bounds all (usize, usize) pairs; no restriction
    // @oracle 1 <= r <= max(pool,1), r <= max(work,1), r == work when 1 <= work <= pool
    #[kani::proof]
    fn workers_for_all() {
        let work: usize = kani::any();
        let pool: usize = kani::any();
        let r = workers_for(work, pool);
        kani::cover!(r == 3 && pool == 8);
        assert!(r >= 1, "C42.workers_ge_1");
        assert!(r <= pool.max(1), "C42.workers_le_pool");
        assert!(r <= work.max(1), "C42.workers_le_work");
        if work >= 1 && work <= pool {
            assert!(r == work, "C42.workers_eq_work");
        }
    }

    /// One cpulist part, chosen symbolically: kind 0 = "d", 1 = "a-b", 2 = junk letter, 3 = empty,
    /// 4 = "a-" (malformed range), 5 = "ax" (digit then junk); optional space before/after.
    #[derive(Clone, Copy)]
    struct Part {
        kind: u8,
        a: u8,
        b: u8,
        sp_before: bool,
        sp_after: bool,
    }

    fn any_part() -> Part {
        let p = Part {
            kind: kani::any(),
            a: kani::any(),
            b: kani::any(),
            sp_before: kani::any(),
            sp_after: kani::any(),
        };
        kani::assume(p.kind <= 5);
        kani::assume(p.a <= 9 && p.b <= 9);
        p
    }

    fn emit(p: &Part, buf: &mut [u8; 24], n: &mut usize) {
        if p.sp_before {
            buf[*n] = b' ';
            *n += 1;
        }
        match p.kind {
            0 => {
                buf[*n] = b'0' + p.a;
                *n += 1;
            }
            1 => {
                buf[*n] = b'0' + p.a;
                buf[*n + 1] = b'-';
                buf[*n + 2] = b'0' + p.b;
                *n += 3;
            }
            2 => {
                buf[*n] = b'x';
                *n += 1;
            }
            3 => {}
            4 => {
                buf[*n] = b'0' + p.a;
                buf[*n + 1] = b'-';
                *n += 2;
            }
            _ => {
                buf[*n] = b'0' + p.a;
                buf[*n + 1] = b'x';
                *n += 2;
            }
        }
        if p.sp_after {
            buf[*n] = b' ';
            *n += 1;
        }
    }

    /// the set a part denotes, as a membership predicate
    fn denotes(p: &Part, c: usize) -> bool {
        match p.kind {
            0 => c == p.a as usize,
            1 => (p.a as usize) <= c && c <= (p.b as usize),
            _ => false,
        }
    }

    fn check_denotation(parts: &[Part]) {
        let mut buf = [0u8; 24];
        let mut n = 0usize;
        let mut i = 0;
        while i < parts.len() {
            if i > 0 {
                buf[n] = b',';
                n += 1;
            }
            emit(&parts[i], &mut buf, &mut n);
            i += 1;
        }
        // ASCII by construction
        let s = unsafe { std::str::from_utf8_unchecked(&buf[..n]) };
        let got = parse_cpulist(s);
        kani::cover!(got.len() >= 2);
        // strictly increasing (sorted, duplicate-free)
        let mut j = 1;
        while j < got.len() {
            assert!(got[j - 1] < got[j], "C42.cpulist_strictly_increasing");
            j += 1;
        }
        // membership: c in result <=> some part denotes c, for every c the bound allows
        let c: usize = kani::any();
        kani::assume(c <= 9);
        let mut want = false;
        let mut k = 0;
        while k < parts.len() {
            want |= denotes(&parts[k], c);
            k += 1;
        }
        let mut have = false;
        let mut m = 0;
        while m < got.len() {
            have |= got[m] == c;
            assert!(got[m] <= 9, "C42.cpulist_nothing_invented");
            m += 1;
        }
        assert!(have == want, "C42.cpulist_denotes_set");
        std::mem::forget(got);
    }

    // @harness tiers=quick,thorough
    // @encodes execution::topology::parse_cpulist
    // @bounds 1 part among {d, a-b, junk, empty, "a-", "dx"} with optional surrounding space; CPU ids 0..=9 (single digits)
    // @oracle c in result <=> the part is `c` or `a-b` with a<=c<=b (a>b denotes nothing); result strictly increasing; nothing > 9
    // @out multi-digit ids; the unbounded expansion of huge ranges such as 0-18446744073709551615
    #[kani::proof]
    #[kani::unwind(12)]
    fn cpulist_one_part() {
        let p = [any_part()];
        check_denotation(&p);
    }

    // @harness tiers=quick,thorough
    // @encodes execution::topology::parse_cpulist
    // @bounds 2 comma-separated parts, each among {d, a-b, junk, empty, "a-", "dx"} with optional spaces; CPU ids 0..=9
    // @oracle as cpulist_one_part; overlapping and duplicate parts collapse (dedup)
    #[kani::proof]
    #[kani::unwind(22)]
    fn cpulist_two_parts() {
        let p = [any_part(), any_part()];
        check_denotation(&p);
    }

    // @harness tiers=thorough
    // @encodes execution::topology::parse_cpulist
    // @bounds 3 comma-separated parts, CPU ids 0..=4 (so the result holds at most 15 entries before dedup)
    #[kani::proof]
    #[kani::unwind(17)]
    fn cpulist_three_parts() {
        let p = [any_part(), any_part(), any_part()];
        kani::assume(p[0].a <= 4 && p[0].b <= 4 && p[1].a <= 4 && p[1].b <= 4 && p[2].a <= 4 && p[2].b <= 4);
        check_denotation(&p);
    }

    // @playback
}
