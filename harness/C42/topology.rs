// @target src/execution/topology.rs
//
// CPU lists and fan-out (DESIGN §4/C42, §0): only the fan-out helper is decided. `parse_cpulist` on a ONE-byte input
// did not finish in 420 s (Vec of symbolic length into sort_unstable + dedup, str::split/trim/parse), so the
// "parses to the set it denotes" half of the property is NOT claimed.
#[cfg(kani)]
mod __verif_c42 {
    use super::*;

    // @harness tiers=quick,thorough
    // @encodes execution::topology::workers_for
    // @bounds all (work_units, pool) pairs in usize x usize; no restriction
    // @oracle the fan-out never exceeds the available work or the pool size, and is at least one worker: 1 <= r <= max(pool,1), r <= max(work,1)
    #[kani::proof]
    fn workers_never_exceed_work_or_pool() {
        let work: usize = kani::any();
        let pool: usize = kani::any();
        let r = workers_for(work, pool);
        kani::cover!(r == 3 && pool == 8);
        kani::cover!(r == 1 && work == 0);
        assert!(r >= 1, "C42.workers_ge_1");
        assert!(r <= pool.max(1), "C42.workers_le_pool");
        assert!(r <= work.max(1), "C42.workers_le_work");
    }

    // @harness tiers=quick,thorough
    // @encodes execution::topology::workers_for
    // @bounds all (work_units, pool) pairs in usize x usize
    // @oracle exact value: work when it fits the pool, the pool size when there is more work than workers, one worker for no work or an empty pool; monotone in both arguments
    #[kani::proof]
    fn workers_for_is_min_of_work_and_pool() {
        let work: usize = kani::any();
        let pool: usize = kani::any();
        let r = workers_for(work, pool);
        kani::cover!(work > pool && pool > 1);
        if work >= 1 && work <= pool {
            assert!(r == work, "C42.workers_eq_work_when_it_fits");
        }
        if work > pool {
            assert!(r == pool.max(1), "C42.workers_eq_pool_when_work_exceeds_it");
        }
        if work == 0 || pool == 0 {
            assert!(r == 1, "C42.one_worker_for_no_work_or_empty_pool");
        }
        let work2: usize = kani::any();
        kani::assume(work2 >= work);
        assert!(workers_for(work2, pool) >= r, "C42.monotone_in_work");
    }

    fn member(v: &Vec<usize>, c: usize) -> bool {
        let mut have = false;
        let mut m = 0;
        while m < v.len() {
            have |= v[m] == c;
            m += 1;
        }
        have
    }

    fn increasing(v: &Vec<usize>) -> bool {
        let mut ok = true;
        let mut j = 1;
        while j < v.len() {
            ok &= v[j - 1] < v[j];
            j += 1;
        }
        ok
    }

    // @harness tiers=experimental timeout=2400
    // @encodes execution::topology::parse_cpulist
    // @bounds the cpulist "a-b" with symbolic single digits a, b in 0..=3
    // @oracle c in result <=> a <= c <= b (a > b denotes nothing); result strictly increasing
    #[kani::proof]
    #[kani::unwind(2)]
    fn cpulist_one_range() {
        let a: u8 = kani::any();
        let b: u8 = kani::any();
        kani::assume(a <= 3 && b <= 3);
        let buf = [b'0' + a, b'-', b'0' + b];
        let s = unsafe { std::str::from_utf8_unchecked(&buf[..]) };
        let got = parse_cpulist(s);
        kani::cover!(got.len() == 3);
        let c: usize = kani::any();
        kani::assume(c <= 9);
        assert!(member(&got, c) == ((a as usize) <= c && c <= (b as usize)), "C42.cpulist_range_denotes_its_set");
        assert!(increasing(&got), "C42.cpulist_strictly_increasing");
        std::mem::forget(got);
    }

    // @harness tiers=experimental timeout=2400
    // @encodes execution::topology::parse_cpulist
    // @bounds the cpulist "a,b" and " a , x" (junk second part) with symbolic single digits
    // @oracle singletons denote themselves, junk is ignored, duplicates collapse, output sorted
    #[kani::proof]
    #[kani::unwind(2)]
    fn cpulist_two_singletons() {
        let a: u8 = kani::any();
        let b: u8 = kani::any();
        kani::assume(a <= 9 && b <= 9);
        let buf = [b'0' + a, b',', b'0' + b];
        let s = unsafe { std::str::from_utf8_unchecked(&buf[..]) };
        let got = parse_cpulist(s);
        kani::cover!(got.len() == 2);
        kani::cover!(got.len() == 1);
        let c: usize = kani::any();
        kani::assume(c <= 9);
        assert!(member(&got, c) == (c == a as usize || c == b as usize), "C42.cpulist_singletons_denote_themselves");
        assert!(increasing(&got), "C42.cpulist_strictly_increasing");
        std::mem::forget(got);
    }

    // @playback
}
