// @target src/distributed/splits.rs
//
// Split enumeration (DESIGN §4/C11) -- the parts that are decidable here: the target-size arithmetic
// (all inputs) and what the digest does and does not depend on. The coverage statement itself
// (enumerate_parquet: footers through the metadata cache + two sorts over Vec<Split> holding Strings)
// did not leave symbolic execution within the cap and is NOT claimed (DESIGN §4/C11, §5).
#[cfg(kani)]
mod __verif_c11 {
    use super::*;

    // @harness tiers=quick,thorough
    // @encodes distributed::splits::target_split_bytes
    // @bounds all total_bytes: u64 and all node counts: usize (0 included)
    // @oracle 1 <= t; t <= max(MAX_SPLIT_BYTES, floor); t >= min(MIN_SPLIT_BYTES, ceil(total/nodes)) (never below one split per node for small tables); no overflow, no division by zero
    #[kani::proof]
    fn target_split_bytes_is_clamped_for_all_inputs() {
        let total: u64 = kani::any();
        let nodes: usize = kani::any();
        let t = target_split_bytes(total, nodes);
        let n = nodes.max(1) as u128;
        let per_node = ((total as u128) + n - 1) / n; // ceil(total / nodes) in wide arithmetic
        let floor = (MIN_SPLIT_BYTES as u128).min(per_node).max(1);
        kani::cover!(t == MIN_SPLIT_BYTES);
        kani::cover!(t == MAX_SPLIT_BYTES);
        kani::cover!(t < MIN_SPLIT_BYTES && t > 1);
        assert!(t >= 1, "C11.target_at_least_one_byte");
        assert!(t as u128 >= floor, "C11.target_not_below_floor");
        assert!(t as u128 <= (MAX_SPLIT_BYTES as u128).max(floor), "C11.target_not_above_cap");
        // a table that fits MIN_SPLIT_BYTES per node is cut to (at most) one split per node, not left whole
        if total > 0 && (total as u128) < n * MIN_SPLIT_BYTES as u128 {
            assert!(t as u128 <= per_node.max(1), "C11.small_table_yields_floor");
        }
    }

    fn one_split(file: &str, path: &str, rg: usize, off: i64, rows: i64, bytes: u64) -> SplitSet {
        SplitSet {
            table: String::from("t"),
            splits: vec![Split {
                table: String::from("t"),
                path: PathBuf::from(path),
                file: String::from(file),
                row_group: rg,
                row_offset: off,
                num_rows: rows,
                bytes,
            }],
            total_bytes: bytes,
            total_rows: rows,
            target_split_bytes: MAX_SPLIT_BYTES,
        }
    }

    // @harness tiers=quick,thorough
    // @encodes distributed::splits::SplitSet::digest
    // @bounds one split with symbolic row_group, row_offset, num_rows, bytes; file name "f"; two different mount paths
    // @oracle the digest does not depend on the mount path; it equals FNV-1a over table, file, and the four numeric fields in little-endian (recomputed in the harness)
    #[kani::proof]
    #[kani::unwind(10)]
    fn digest_ignores_mount_path_and_is_fnv1a_of_canonical_fields() {
        let rg: usize = kani::any();
        let off: i64 = kani::any();
        let rows: i64 = kani::any();
        let bytes: u64 = kani::any();
        let a = one_split("f", "/data/f", rg, off, rows, bytes);
        let b = one_split("f", "/mnt/x/f", rg, off, rows, bytes);
        let (da, db) = (a.digest(), b.digest());
        kani::cover!(rg == 7);
        assert!(da == db, "C11.digest_independent_of_mount_path");
        let mut h: u64 = 0xcbf29ce484222325;
        let mut feed = |bs: &[u8]| {
            let mut i = 0;
            while i < bs.len() {
                h ^= bs[i] as u64;
                h = h.wrapping_mul(0x100000001b3);
                i += 1;
            }
        };
        feed(b"t");
        feed(b"f");
        feed(&(rg as u64).to_le_bytes());
        feed(&off.to_le_bytes());
        feed(&rows.to_le_bytes());
        feed(&bytes.to_le_bytes());
        assert!(da == h, "C11.digest_is_fnv1a_of_canonical_fields");
        std::mem::forget(a);
        std::mem::forget(b);
    }

    // @harness tiers=quick,thorough
    // @encodes distributed::splits::SplitSet::digest
    // @bounds one split; exactly ONE of row_group / row_offset / num_rows / bytes differs between the two sets, and only in its least-significant byte (the other 7 bytes equal)
    // @oracle a single-byte change of any footer-derived field changes the digest (each FNV-1a step is a bijection of the state, so the difference can never cancel)
    // @out multi-byte changes (a 64-bit non-cryptographic hash cannot separate all of them; not claimed by DESIGN)
    #[kani::proof]
    #[kani::unwind(10)]
    fn digest_changes_with_any_single_byte_change() {
        let rg: usize = kani::any();
        let off: i64 = kani::any();
        let rows: i64 = kani::any();
        let bytes: u64 = kani::any();
        let which: u8 = kani::any();
        kani::assume(which < 4);
        let delta: u8 = kani::any();
        kani::assume(delta != 0);
        let d = delta as u64;
        let (rg2, off2, rows2, bytes2) = match which {
            0 => ((rg as u64 ^ d) as usize, off, rows, bytes),
            1 => (rg, (off as u64 ^ d) as i64, rows, bytes),
            2 => (rg, off, (rows as u64 ^ d) as i64, bytes),
            _ => (rg, off, rows, bytes ^ d),
        };
        let a = one_split("f", "/d/f", rg, off, rows, bytes);
        let b = one_split("f", "/d/f", rg2, off2, rows2, bytes2);
        kani::cover!(which == 0);
        kani::cover!(which == 3);
        assert!(a.digest() != b.digest(), "C11.digest_sensitive_to_single_byte_changes");
        std::mem::forget(a);
        std::mem::forget(b);
    }

    // @playback
}
