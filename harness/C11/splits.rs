// @target src/distributed/splits.rs
//
// Split enumeration (DESIGN §4/C11) -- the parts that are decidable here: the target-size arithmetic
// (all inputs) and what the digest does and does not depend on. The coverage statement itself
// (enumerate_parquet: footers through the metadata cache + two sorts over Vec<Split> holding Strings)
// did not leave symbolic execution within the cap and is NOT claimed (DESIGN §4/C11, §5).
#[cfg(kani)]
mod __verif_c11 {
    use super::*;

    fn target_case(nodes: usize) {
        let total: u64 = kani::any();
        let t = target_split_bytes(total, nodes);
        let n = nodes.max(1) as u64;
        let (min, max) = (MIN_SPLIT_BYTES, MAX_SPLIT_BYTES);
        kani::cover!(t == min);
        kani::cover!(t == max);
        kani::cover!(t > min && t < max);
        assert!(t >= 1, "C11.target_at_least_one_byte");
        assert!(t <= max, "C11.target_not_above_cap");
        // never below one split per node for small tables (t*n cannot overflow: t <= 2^26, n <= 64)
        assert!(t >= min || t * n >= total, "C11.target_not_below_one_split_per_node");
        if t > min && t < max {
            assert!(t * 32 * n <= total && total - t * 32 * n < 32 * n, "C11.target_is_ideal_between_clamps");
        }
        if t == max {
            assert!(total >= max * 32 * n, "C11.upper_clamp_only_when_ideal_exceeds_it");
        }
        if t < min {
            assert!((total == 0 && t == 1) || ((t - 1) * n < total && total <= t * n), "C11.small_table_gets_one_split_per_node");
        }
    }

    // @harness tiers=quick,thorough
    // @encodes distributed::splits::target_split_bytes
    // @bounds all total_bytes: u64; node counts 0, 1, 2, 3, 5, 8, 16, 64 iterated concretely (division by a symbolic divisor did not finish in 420 s; by a constant it is cheap)
    // @oracle stated with multiplications only: 1 <= t <= MAX_SPLIT_BYTES; t >= MIN_SPLIT_BYTES or t*nodes >= total; strictly between the clamps t == floor(total / (32*nodes)); at the upper clamp the ideal really is >= MAX; below MIN the target is exactly ceil(total/nodes) (1 for an empty table)
    // @out other node counts
    #[kani::proof]
    #[kani::unwind(2)]
    fn target_split_bytes_is_clamped_for_all_sizes() {
        target_case(0);
        target_case(1);
        target_case(2);
        target_case(3);
        target_case(5);
        target_case(8);
        target_case(16);
        target_case(64);
    }

    // @harness tiers=thorough timeout=1200
    // @encodes distributed::splits::target_split_bytes
    // @bounds all total_bytes: u64; node counts 4, 6, 7, 12, 24, 32, 48, 63 (the quick tier covers 0, 1, 2, 3, 5, 8, 16, 64)
    // @oracle as target_split_bytes_is_clamped_for_all_sizes
    #[kani::proof]
    #[kani::unwind(2)]
    fn target_split_bytes_more_node_counts() {
        target_case(4);
        target_case(6);
        target_case(7);
        target_case(12);
        target_case(24);
        target_case(32);
        target_case(48);
        target_case(63);
    }

    fn one_split(file: &str, path: &str, rg: usize, off: i64, rows: i64, bytes: u64) -> SplitSet {
        SplitSet {
            table: String::from("t"),
            splits: vec![Split {
                table: String::from("t"),
                path: PathBuf::from(path),
                file: String::from(file),
                row_group: rg,
                row_offset: off,
                num_rows: rows,
                bytes,
            }],
            total_bytes: bytes,
            total_rows: rows,
            target_split_bytes: MAX_SPLIT_BYTES,
        }
    }

    // @harness tiers=quick,thorough timeout=900
    // @encodes distributed::splits::SplitSet::digest
    // @bounds one split with symbolic num_rows and bytes (row_group 3, row_offset 7 concrete: the FNV chain is sequential, so only the fields from the first symbolic byte on cost solver time); file name "f"; two different mount paths
    // @oracle the digest does not depend on the mount path (only on table, file name and the four footer-derived fields)
    #[kani::proof]
    #[kani::unwind(10)]
    fn digest_ignores_mount_path() {
        let rows: i64 = kani::any();
        let bytes: u64 = kani::any();
        let a = one_split("f", "/data/f", 3, 7, rows, bytes);
        let b = one_split("f", "/mnt/x/f", 3, 7, rows, bytes);
        let (da, db) = (a.digest(), b.digest());
        kani::cover!(rows == 7);
        assert!(da == db, "C11.digest_independent_of_mount_path");
        std::mem::forget(a);
        std::mem::forget(b);
    }

    // @harness tiers=quick,thorough
    // @encodes distributed::splits::SplitSet::digest
    // @bounds one split; exactly ONE of row_group / row_offset / num_rows / bytes differs between the two sets, and only in its least-significant byte (the other 7 bytes equal)
    // @oracle a single-byte change of any footer-derived field changes the digest (each FNV-1a step is a bijection of the state, so the difference can never cancel)
    // @out multi-byte changes (a 64-bit non-cryptographic hash cannot separate all of them; not claimed by DESIGN)
    #[kani::proof]
    #[kani::unwind(10)]
    fn digest_changes_with_any_single_byte_change() {
        let rg: usize = kani::any();
        let off: i64 = kani::any();
        let rows: i64 = kani::any();
        let bytes: u64 = kani::any();
        let which: u8 = kani::any();
        kani::assume(which < 4);
        let delta: u8 = kani::any();
        kani::assume(delta != 0);
        let d = delta as u64;
        let (rg2, off2, rows2, bytes2) = match which {
            0 => ((rg as u64 ^ d) as usize, off, rows, bytes),
            1 => (rg, (off as u64 ^ d) as i64, rows, bytes),
            2 => (rg, off, (rows as u64 ^ d) as i64, bytes),
            _ => (rg, off, rows, bytes ^ d),
        };
        let a = one_split("f", "/d/f", rg, off, rows, bytes);
        let b = one_split("f", "/d/f", rg2, off2, rows2, bytes2);
        kani::cover!(which == 0);
        kani::cover!(which == 3);
        assert!(a.digest() != b.digest(), "C11.digest_sensitive_to_single_byte_changes");
        std::mem::forget(a);
        std::mem::forget(b);
    }

    // @playback
}
