// @target src/distributed/splits.rs
// @mode S:cut
//
// The coverage statement of C11 on the REAL pass-2 block of enumerate_parquet (DESIGN §0, "mode S:cut"): the block
// is cut out of the working tree's splits.rs on every run and compiled as the body of
//     fn pass2(table, inventory, total_bytes, nodes) -> (target, splits, inventory)
// so the row-group inventory that pass 1 reads from Parquet footers becomes a symbolic PARAMETER. Names and paths are
// a zero-sized token (they do not take part in the cutting arithmetic); the canonical sort after the block is outside.
#[cfg(all(kani, feature = "verif_mode_s"))]
mod __verif_c11cut {
    use super::*;

    static TOK: Tok = Tok;

    fn rg(index: usize, rows: i64, bytes: u64) -> RowGroup<'static> {
        RowGroup { path: &TOK, file: Tok, index, rows, bytes }
    }

    /// One row group under test (index 7) behind a one-row, zero-byte row group (index 0). The second entry only
    /// makes `Vec::with_capacity(inventory.len() * 2)` large enough that the output never re-allocates, and puts the
    /// splits under test at CONCRETE positions 1.. of the output (Vec is the fixed-capacity stub of modes/cut/src/vec_shim.rs).
    fn one_group(nodes: usize, max_rows: i64, max_bytes: u64, max_other: u64) {
        let r0: i64 = kani::any();
        let b0: u64 = kani::any();
        let other: u64 = kani::any(); // bytes of the rest of the table (row groups not looked at here)
        kani::assume(r0 >= 1 && r0 <= max_rows);
        kani::assume(b0 <= max_bytes && other <= max_other);
        let mut inv = VecShim::with_capacity(2);
        inv.push(rg(0, 1, 0));
        inv.push(rg(7, r0, b0));
        let (target, splits, inv) = pass2(&TOK, inv, b0 + other, nodes);
        assert!(target == target_split_bytes(b0 + other, nodes), "C11.target_is_the_clamped_target");
        let n = splits.len();
        assert!(n >= 2 && n <= 1 + max_rows as usize, "C11.piece_count_within_rows");
        let s0 = splits.get(0).unwrap();
        assert!(s0.row_group == 0 && s0.row_offset == 0 && s0.num_rows == 1 && s0.bytes == 0, "C11.zero_byte_row_group_is_one_split");
        let mut next_row: i64 = 0;
        let mut bytes: u128 = 0;
        let mut j = 1usize;
        while j <= max_rows as usize {
            if j < n {
                let s = splits.get(j).unwrap();
                assert!(s.row_group == 7, "C11.no_split_outside_the_inventory");
                assert!(s.num_rows > 0, "C11.no_empty_split");
                assert!(s.row_offset == next_row, "C11.ranges_are_contiguous_from_zero");
                next_row += s.num_rows;
                bytes += s.bytes as u128;
            }
            j += 1;
        }
        assert!(next_row == r0, "C11.every_row_exactly_once");
        assert!(bytes == b0 as u128, "C11.bytes_sum_to_the_row_group");
        kani::cover!(n == 2 && b0 > target);
        kani::cover!(n == 1 + max_rows as usize);
        kani::cover!(n > 2 && splits.get(1).unwrap().bytes != splits.get(2).unwrap().bytes);
        core::mem::forget(splits);
        core::mem::forget(inv);
    }

    // @harness tiers=quick,thorough timeout=900
    // @encodes distributed::splits::enumerate_parquet (pass-2 block, verbatim), distributed::splits::target_split_bytes
    // @bounds one row group of a small table on 3 nodes: rows 1..=3, bytes 0..=255, rest of the table 0..=255 bytes (small-table regime: target = ceil(total/nodes), so the row group really is cut)
    // @oracle in emission order: pieces non-empty, offsets contiguous from 0, rows sum to the row group's, piece bytes sum to the row group's bytes, 1..=rows pieces; nothing else emitted
    // @out pass 1 (footers, rows <= 0 filter, total accumulation), the canonical sort and digest, names/paths (zero-sized token), std's Vec (fixed-capacity stub modes/cut/src/vec_shim.rs: with_capacity/push/len/iteration), rows > 3 (rows <= 5 with bytes <= 65535 did not conclude in 170 s and was not pursued), interaction of several row groups (the block treats them independently given the target)
    #[kani::proof]
    #[kani::unwind(5)]
    fn cut_covers_every_row_once_small_table_3_nodes() {
        one_group(3, 3, 255, 255);
    }

    // @harness tiers=quick,thorough timeout=900
    // @encodes distributed::splits::enumerate_parquet (pass-2 block, verbatim), distributed::splits::target_split_bytes
    // @bounds as cut_covers_every_row_once_small_table_3_nodes, on 5 nodes
    // @oracle as cut_covers_every_row_once_small_table_3_nodes
    #[kani::proof]
    #[kani::unwind(5)]
    fn cut_covers_every_row_once_small_table_5_nodes() {
        one_group(5, 3, 255, 255);
    }

    // @harness tiers=quick,thorough timeout=900
    // @encodes distributed::splits::enumerate_parquet (pass-2 block, verbatim), distributed::splits::target_split_bytes
    // @bounds one row group of a real-sized table on 8 nodes: rows 1..=3, bytes 0..=2^40 (the property's range), rest of the table 0..=2^46 bytes (target anywhere in 4..64 MiB)
    // @oracle as cut_covers_every_row_once_small_table_3_nodes
    #[kani::proof]
    #[kani::unwind(5)]
    fn cut_covers_every_row_once_real_sizes_8_nodes() {
        one_group(8, 3, 1u64 << 40, 1u64 << 46);
    }

    // @harness tiers=quick,thorough timeout=900
    // @encodes distributed::splits::enumerate_parquet (pass-2 block, verbatim), distributed::splits::target_split_bytes
    // @bounds as cut_covers_every_row_once_real_sizes_8_nodes, on 64 nodes
    // @oracle as cut_covers_every_row_once_small_table_3_nodes
    #[kani::proof]
    #[kani::unwind(5)]
    fn cut_covers_every_row_once_real_sizes_64_nodes() {
        one_group(64, 3, 1u64 << 40, 1u64 << 46);
    }

    // @harness tiers=quick,thorough timeout=900
    // @encodes distributed::splits::enumerate_parquet (pass-2 block, verbatim), distributed::splits::target_split_bytes
    // @bounds as cut_covers_every_row_once_real_sizes_8_nodes, on 1 node
    // @oracle as cut_covers_every_row_once_small_table_3_nodes
    #[kani::proof]
    #[kani::unwind(5)]
    fn cut_covers_every_row_once_real_sizes_1_node() {
        one_group(1, 3, 1u64 << 40, 1u64 << 46);
    }

    // @harness tiers=quick,thorough timeout=900
    // @encodes distributed::splits::enumerate_parquet (pass-2 block, verbatim), distributed::splits::target_split_bytes
    // @bounds one row group of a small table on 5 nodes: rows 1..=4, bytes 0..=63, rest of the table 0..=63 bytes (four pieces: the smallest shape in which rounding the per-piece byte share UP over-attributes)
    // @oracle as cut_covers_every_row_once_small_table_3_nodes
    #[kani::proof]
    #[kani::unwind(6)]
    fn cut_covers_every_row_once_four_rows_5_nodes() {
        one_group(5, 4, 63, 63);
    }

    // @harness tiers=quick,thorough timeout=900
    // @encodes distributed::splits::enumerate_parquet (pass-2 block, verbatim), distributed::splits::target_split_bytes
    // @bounds one row group of a small table on 5 nodes: rows 1..=5, bytes 0..=31, rest of the table 0..=31 bytes (five rows over four pieces: the smallest shape in which a fixed-stride cut leaves the last piece empty)
    // @oracle as cut_covers_every_row_once_small_table_3_nodes
    #[kani::proof]
    #[kani::unwind(7)]
    fn cut_covers_every_row_once_five_rows_5_nodes() {
        one_group(5, 5, 31, 31);
    }

    /// splits of row group `g` start at position `k` of the output (symbolic); returns the position after them
    fn check_group(splits: &VecShim<Split>, mut k: usize, g_index: usize, g_rows: i64, g_bytes: u64, max_pieces: usize) -> usize {
        let mut next_row: i64 = 0;
        let mut bytes: u128 = 0;
        let mut pieces = 0usize;
        while pieces < max_pieces {
            match splits.get(k) {
                Some(s) if s.row_group == g_index => {
                    assert!(s.num_rows > 0, "C11.no_empty_split");
                    assert!(s.row_offset == next_row, "C11.ranges_are_contiguous_from_zero");
                    next_row += s.num_rows;
                    bytes += s.bytes as u128;
                    k += 1;
                }
                _ => {}
            }
            pieces += 1;
        }
        assert!(next_row == g_rows, "C11.every_row_exactly_once");
        assert!(bytes == g_bytes as u128, "C11.bytes_sum_to_the_row_group");
        k
    }

    // @harness tiers=quick,thorough timeout=900
    // @encodes distributed::splits::enumerate_parquet (pass-2 block, verbatim), distributed::splits::target_split_bytes
    // @bounds a whole table of TWO row groups (total_bytes = their sum, as pass 1 computes it) on 3 nodes: rows 1..=2 each, bytes 0..=63 each
    // @oracle the output is exactly: the pieces of row group 0 (non-empty, contiguous from 0, rows and bytes summing to the row group's), then those of row group 1, then nothing; hence split bytes sum to the table's
    // @out as cut_covers_every_row_once_small_table_3_nodes; more than two row groups
    #[kani::proof]
    #[kani::unwind(5)]
    fn cut_two_row_groups_make_up_the_whole_table() {
        let (r0, r1): (i64, i64) = (kani::any(), kani::any());
        let (b0, b1): (u64, u64) = (kani::any(), kani::any());
        kani::assume(r0 >= 1 && r0 <= 2 && r1 >= 1 && r1 <= 2);
        kani::assume(b0 <= 63 && b1 <= 63);
        let mut inv = VecShim::with_capacity(2);
        inv.push(rg(0, r0, b0));
        inv.push(rg(1, r1, b1));
        let (_target, splits, inv) = pass2(&TOK, inv, b0 + b1, 3);
        let k = check_group(&splits, 0, 0, r0, b0, 2);
        let k = check_group(&splits, k, 1, r1, b1, 2);
        assert!(k == splits.len(), "C11.no_split_outside_the_inventory");
        kani::cover!(splits.len() == 2);
        kani::cover!(splits.len() == 3);
        kani::cover!(splits.len() == 4);
        core::mem::forget(splits);
        core::mem::forget(inv);
    }

    // @harness tiers=quick,thorough timeout=900
    // @encodes distributed::splits::enumerate_parquet (pass-2 block, verbatim), distributed::splits::target_split_bytes
    // @bounds one row group of a small table on 8 nodes: rows 1..=5, bytes 0..=255, rest of the table 0..=255 bytes
    // @oracle as cut_covers_every_row_once_small_table_3_nodes
    #[kani::proof]
    #[kani::unwind(7)]
    fn cut_covers_every_row_once_five_rows_8_nodes_wider_bytes() {
        one_group(8, 5, 255, 255);
    }

    // @harness tiers=thorough timeout=900
    // @encodes distributed::splits::enumerate_parquet (pass-2 block, verbatim), distributed::splits::target_split_bytes
    // @bounds one row group of a small table on 8 nodes: rows 1..=5, bytes 0..=4095, rest of the table 0..=4095 bytes
    // @oracle as cut_covers_every_row_once_small_table_3_nodes
    #[kani::proof]
    #[kani::unwind(7)]
    fn cut_covers_every_row_once_five_rows_8_nodes_4k_bytes() {
        one_group(8, 5, 4095, 4095);
    }

    // @playback
}
