// @target src/distributed/http_client.rs
//
// Peer HTTP response framing (DESIGN §4/C16): parse_response on semi-concrete wire images
// (fixed skeleton, symbolic status digits / declared length / body bytes / truncation point).
#[cfg(kani)]
mod __verif_c16 {
    use super::*;

    const W: usize = 48;

    fn put(buf: &mut [u8; W], n: &mut usize, bytes: &[u8]) {
        let mut i = 0;
        while i < bytes.len() {
            buf[*n] = bytes[i];
            *n += 1;
            i += 1;
        }
    }

    /// error paths build their message with format!; the text is irrelevant to the property
    fn no_format(_args: std::fmt::Arguments<'_>) -> String {
        String::new()
    }

    fn body_matches(r: &HttpResponse, body: &[u8]) -> bool {
        if r.body.len() != body.len() {
            return false;
        }
        let mut ok = true;
        let mut i = 0;
        while i < body.len() {
            ok &= r.body[i] == body[i];
            i += 1;
        }
        ok
    }

    // @harness tiers=quick,thorough timeout=900
    // @encodes distributed::http_client::parse_response, distributed::http_client::HttpResponse::header, distributed::http_client::HttpResponse::is_success
    // @bounds wire = "HTTP/1.1 200 OK CRLF Content-Length: <D> CRLF CRLF" + k body bytes; declared length D one symbolic decimal digit, k <= 3 symbolic, body bytes symbolic
    // @oracle Ok(r) => r.status == 200, r.body is exactly the k bytes sent, and r.body.len() >= D (a body shorter than the declared Content-Length is an error, never a success)
    // @out several headers, bodies > 3 bytes, the socket / timeout behaviour of request_inner (tokio)
    #[kani::proof]
    #[kani::unwind(8)]
    #[kani::stub(alloc::fmt::format, no_format)]
    fn body_never_shorter_than_content_length() {
        let d: u8 = kani::any();
        kani::assume(d <= 9);
        let k: usize = kani::any();
        kani::assume(k <= 3);
        let body: [u8; 3] = kani::any();
        let mut buf = [0u8; W];
        let mut n = 0usize;
        put(&mut buf, &mut n, b"HTTP/1.1 200 OK\r\nContent-Length: ");
        put(&mut buf, &mut n, &[b'0' + d]);
        put(&mut buf, &mut n, b"\r\n\r\n");
        put(&mut buf, &mut n, &body[..k]);
        let r = parse_response(&buf[..n]);
        kani::cover!(r.is_ok() && k == 2);
        if let Ok(r) = &r {
            assert!(r.status == 200, "C16.status_is_the_one_sent");
            assert!(r.is_success(), "C16.2xx_is_success");
            assert!(body_matches(r, &body[..k]), "C16.body_is_exactly_what_followed_the_headers");
            assert!(r.body.len() >= d as usize, "C16.body_ge_content_length");
        }
        std::mem::forget(r);
    }

    // @playback
}
