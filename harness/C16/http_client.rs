// @target src/distributed/http_client.rs
//
// Peer HTTP response framing (DESIGN §4/C16): parse_response on semi-concrete wire images
// (fixed skeleton, symbolic status digits / declared length / body bytes / truncation point).
#[cfg(kani)]
mod __verif_c16 {
    use super::*;

    const W: usize = 48;

    fn put(buf: &mut [u8; W], n: &mut usize, bytes: &[u8]) {
        let mut i = 0;
        while i < bytes.len() {
            buf[*n] = bytes[i];
            *n += 1;
            i += 1;
        }
    }

    /// error paths build their message with format!; the text is irrelevant to the property
    fn no_format(_args: std::fmt::Arguments<'_>) -> String {
        String::new()
    }

    fn body_matches(r: &HttpResponse, body: &[u8]) -> bool {
        if r.body.len() != body.len() {
            return false;
        }
        let mut ok = true;
        let mut i = 0;
        while i < body.len() {
            ok &= r.body[i] == body[i];
            i += 1;
        }
        ok
    }

    fn framing_case(d: u8, k: usize) {
        let body: [u8; 3] = kani::any();
        let mut buf = [0u8; W];
        let mut n = 0usize;
        put(&mut buf, &mut n, b"HTTP/1.1 200 OK\r\nContent-Length: ");
        put(&mut buf, &mut n, &[b'0' + d]);
        put(&mut buf, &mut n, b"\r\n\r\n");
        put(&mut buf, &mut n, &body[..k]);
        let r = parse_response(&buf[..n]);
        kani::cover!(r.is_ok() == (k >= d as usize));
        if k < d as usize {
            assert!(r.is_err(), "C16.short_body_is_an_error");
        }
        if let Ok(r) = &r {
            assert!(r.status == 200, "C16.status_is_the_one_sent");
            assert!(r.is_success(), "C16.2xx_is_success");
            assert!(body_matches(r, &body[..k]), "C16.body_is_exactly_what_followed_the_headers");
            assert!(r.body.len() >= d as usize, "C16.body_ge_content_length");
        }
        std::mem::forget(r);
    }

    // @harness tiers=thorough timeout=2400
    // @encodes distributed::http_client::parse_response, distributed::http_client::HttpResponse::is_success
    // @bounds wire = "HTTP/1.1 200 OK CRLF Content-Length: 1 CRLF CRLF" + 1 symbolic body byte (CR, LF, NUL, anything)
    // @oracle Ok with status 200, success flag, and the body exactly the byte that followed the header block
    // @out several headers, longer bodies (thorough tier: 0 and 3 bytes), the socket / timeout behaviour of request_inner (tokio)
    // @unwindset {closure#0}}>::{closure#0}}>#0:16 next::{closure#0}}>#0:32 try_fold::#0:64 ::next#0:32 ::next_match#0:16 ::from_ascii_bytes_radix_impl#0:4 memchr::memchr_naive#0:8 __verif_c16::put#0:64 memcmp#0:16
    #[kani::proof]
    #[kani::unwind(2)]
    #[kani::stub(alloc::fmt::format, no_format)]
    fn complete_body_is_returned_exactly() {
        framing_case(1, 1);
    }

    // @harness tiers=experimental timeout=2400
    // @encodes distributed::http_client::parse_response
    // @bounds as complete_body_is_returned_exactly for (D,k) = (0,0) and (3,3)
    // @oracle as complete_body_is_returned_exactly
    // @unwindset {closure#0}}>::{closure#0}}>#0:16 next::{closure#0}}>#0:32 try_fold::#0:64 ::next#0:32 ::next_match#0:16 ::from_ascii_bytes_radix_impl#0:4 memchr::memchr_naive#0:8 __verif_c16::put#0:64 memcmp#0:16
    #[kani::proof]
    #[kani::unwind(2)]
    #[kani::stub(alloc::fmt::format, no_format)]
    fn complete_bodies_of_0_and_3_bytes() {
        framing_case(0, 0);
        framing_case(3, 3);
    }

    // @harness tiers=thorough timeout=2400
    // @encodes distributed::http_client::parse_response
    // @bounds the peer closes early: declared Content-Length 2, one symbolic body byte arrived
    // @oracle a body shorter than the declared Content-Length is an error, never a success
    // @unwindset {closure#0}}>::{closure#0}}>#0:16 next::{closure#0}}>#0:32 try_fold::#0:64 ::next#0:32 ::next_match#0:16 ::from_ascii_bytes_radix_impl#0:4 memchr::memchr_naive#0:8 __verif_c16::put#0:64 memcmp#0:16
    #[kani::proof]
    #[kani::unwind(2)]
    #[kani::stub(alloc::fmt::format, no_format)]
    fn body_never_shorter_than_content_length() {
        framing_case(2, 1);
    }

    fn truncated_range(from: usize, to: usize) {
        let msg = b"HTTP/1.1 200 OK\r\nContent-Length: 2\r\n\r\nok";
        let mut cut = from;
        let mut errs = 0usize;
        while cut < to {
            let r = parse_response(&msg[..cut]);
            if r.is_err() {
                errs += 1;
            }
            assert!(r.is_err(), "C16.truncated_head_rejected");
            std::mem::forget(r);
            cut += 1;
        }
        kani::cover!(errs == to - from);
    }

    // @harness tiers=quick,thorough timeout=900
    // @encodes distributed::http_client::parse_response
    // @bounds the well-formed message "HTTP/1.1 200 OK CRLF Content-Length: 2 CRLF CRLF ok" cut at every byte offset 0..=18 (inside the status line and at its CRLF)
    // @oracle a response cut anywhere before the end of its header block is an error (never a success with an empty body)
    #[kani::proof]
    #[kani::unwind(48)]
    #[kani::stub(alloc::fmt::format, no_format)]
    fn truncated_in_the_status_line_is_an_error() {
        truncated_range(0, 19);
    }

    // @harness tiers=quick,thorough timeout=900
    // @encodes distributed::http_client::parse_response
    // @bounds the same message cut at every byte offset 19..=37 (inside the Content-Length header and the CRLF CRLF terminator)
    // @oracle as truncated_in_the_status_line_is_an_error
    #[kani::proof]
    #[kani::unwind(48)]
    #[kani::stub(alloc::fmt::format, no_format)]
    fn truncated_in_the_headers_is_an_error() {
        truncated_range(19, 38);
    }

    // @playback
}
