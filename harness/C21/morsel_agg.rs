// @target src/physical/morsel_agg.rs
//
// Aggregate NULL / empty-input rules on the morsel path's accumulator algebra (DESIGN §4/C21).
#[cfg(kani)]
mod __verif_c21 {
    use super::*;

    fn feed(acc: &mut AccumulatorState, x: Option<i64>, slow: bool) {
        match (x, slow) {
            // typed fast path: TypedArrayAccessor::update_accumulator skips NULL rows, feeds update_i64 otherwise
            (Some(v), false) => acc.update_i64(v),
            (None, false) => {}
            // ScalarValue slow path: NULLs are passed in and must be ignored by the accumulator itself
            (Some(v), true) => {
                let sv = ScalarValue::Int64(v);
                acc.update(&sv);
                std::mem::forget(sv);
            }
            (None, true) => {
                let sv = ScalarValue::Null;
                acc.update(&sv);
                std::mem::forget(sv);
            }
        }
    }

    /// three inputs, each NULL or a BIGINT; a morsel boundary after `split` inputs; which update path is used
    struct Inputs {
        x: [Option<i64>; 3],
        split: usize,
        slow: bool,
    }

    fn any_inputs() -> Inputs {
        let x: [Option<i64>; 3] = [kani::any(), kani::any(), kani::any()];
        // SUM overflow is engine-defined and excluded by the property
        kani::assume(x[0].map_or(true, |v| v > -(1i64 << 40) && v < (1i64 << 40)));
        kani::assume(x[1].map_or(true, |v| v > -(1i64 << 40) && v < (1i64 << 40)));
        kani::assume(x[2].map_or(true, |v| v > -(1i64 << 40) && v < (1i64 << 40)));
        let split: usize = kani::any();
        kani::assume(split <= 3);
        Inputs { x, split, slow: kani::any() }
    }

    /// two partial accumulators (a morsel boundary at `split`), merged, finalized. Straight-line on purpose:
    /// with no loop in the harness the unwinding bound only has to cover the real code, which keeps the
    /// recursive drop glue of ScalarValue/DataType (explored by CBMC under every overwritten Option) shallow.
    fn run(func: AggregateFunction, inp: &Inputs) -> ScalarValue {
        let mut left = AccumulatorState::new(&func, &DataType::Int64);
        let mut right = AccumulatorState::new(&func, &DataType::Int64);
        if 0 < inp.split { feed(&mut left, inp.x[0], inp.slow) } else { feed(&mut right, inp.x[0], inp.slow) }
        if 1 < inp.split { feed(&mut left, inp.x[1], inp.slow) } else { feed(&mut right, inp.x[1], inp.slow) }
        if 2 < inp.split { feed(&mut left, inp.x[2], inp.slow) } else { feed(&mut right, inp.x[2], inp.slow) }
        left.merge(&right);
        let out = left.finalize(&func);
        std::mem::forget(left);
        std::mem::forget(right);
        out
    }

    fn stats(inp: &Inputs) -> (i64, i64, Option<i64>, Option<i64>) {
        let (mut cnt, mut sum) = (0i64, 0i64);
        let (mut mn, mut mx): (Option<i64>, Option<i64>) = (None, None);
        let mut add = |x: Option<i64>| {
            if let Some(v) = x {
                cnt += 1;
                sum += v;
                mn = Some(match mn { Some(m) if m <= v => m, _ => v });
                mx = Some(match mx { Some(m) if m >= v => m, _ => v });
            }
        };
        add(inp.x[0]);
        add(inp.x[1]);
        add(inp.x[2]);
        (cnt, sum, mn, mx)
    }

    // @harness tiers=quick,thorough
    // @encodes physical::morsel_agg::AccumulatorState::new, physical::morsel_agg::AccumulatorState::update, physical::morsel_agg::AccumulatorState::update_i64, physical::morsel_agg::AccumulatorState::merge, physical::morsel_agg::AccumulatorState::finalize, physical::morsel_agg::scalar_to_i64
    // @bounds COUNT over 3 BIGINT inputs each NULL or |x| < 2^40, any morsel boundary (split 0..=3), typed fast path or ScalarValue slow path
    // @oracle COUNT = number of non-NULL inputs (0 for none, never NULL)
    #[kani::proof]
    #[kani::unwind(2)]
    fn count_ignores_nulls() {
        let inp = any_inputs();
        let (cnt, _, _, _) = stats(&inp);
        let c = run(AggregateFunction::Count, &inp);
        kani::cover!(cnt == 2 && inp.split == 1);
        kani::cover!(cnt == 0);
        assert!(matches!(c, ScalarValue::Int64(n) if n == cnt), "C21.count_counts_non_null");
        std::mem::forget(c);
    }

    // @harness tiers=quick,thorough
    // @encodes physical::morsel_agg::AccumulatorState::new, physical::morsel_agg::AccumulatorState::update, physical::morsel_agg::AccumulatorState::update_i64, physical::morsel_agg::AccumulatorState::merge, physical::morsel_agg::AccumulatorState::finalize, physical::morsel_agg::scalar_to_i64
    // @bounds SUM over 3 BIGINT inputs each NULL or |x| < 2^40, any morsel boundary, both update paths
    // @oracle SUM = NULL iff no non-NULL input, else the exact integer sum of the non-NULL inputs
    #[kani::proof]
    #[kani::unwind(2)]
    fn sum_ignores_nulls() {
        let inp = any_inputs();
        let (cnt, sum, _, _) = stats(&inp);
        let s = run(AggregateFunction::Sum, &inp);
        kani::cover!(cnt == 2 && inp.split == 2);
        kani::cover!(cnt == 0);
        if cnt == 0 {
            assert!(matches!(s, ScalarValue::Null), "C21.sum_of_no_non_null_is_null");
        } else {
            assert!(matches!(s, ScalarValue::Int64(v) if v == sum), "C21.sum_is_exact_over_non_null");
        }
        std::mem::forget(s);
    }

    // @harness tiers=experimental timeout=2400
    // @encodes physical::morsel_agg::AccumulatorState::update, physical::morsel_agg::AccumulatorState::update_i64, physical::morsel_agg::AccumulatorState::merge, physical::morsel_agg::AccumulatorState::finalize, physical::morsel_agg::compare_scalar_values
    // @bounds MIN and MAX (symbolic choice) over 3 BIGINT inputs (NULL or |x| < 2^40), any morsel boundary, both update paths
    // @oracle NULL iff no non-NULL input, else the integer minimum / maximum of the non-NULL inputs
    #[kani::proof]
    #[kani::unwind(2)]
    fn min_max_ignore_nulls() {
        let inp = any_inputs();
        let (cnt, _, mn, mx) = stats(&inp);
        let is_min: bool = kani::any();
        let got = if is_min { run(AggregateFunction::Min, &inp) } else { run(AggregateFunction::Max, &inp) };
        let want = if is_min { mn } else { mx };
        kani::cover!(cnt == 3 && mn != mx && is_min);
        kani::cover!(cnt == 0);
        match want {
            None => assert!(matches!(got, ScalarValue::Null), "C21.min_max_of_no_non_null_is_null"),
            Some(m) => assert!(matches!(got, ScalarValue::Int64(v) if v == m), "C21.min_max_is_extremum_of_non_null"),
        }
        std::mem::forget(got);
    }

    // @harness tiers=experimental timeout=2400
    // @encodes physical::morsel_agg::AccumulatorState::update, physical::morsel_agg::AccumulatorState::update_i64, physical::morsel_agg::AccumulatorState::merge, physical::morsel_agg::AccumulatorState::finalize, physical::morsel_agg::scalar_to_f64
    // @bounds AVG over 3 BIGINT inputs (NULL or |x| < 2^40 so every partial sum is exact in f64), any morsel boundary, both update paths
    // @oracle NULL iff no non-NULL input, else (exact sum as f64) / (count as f64), bit for bit
    #[kani::proof]
    #[kani::unwind(2)]
    fn avg_ignores_nulls() {
        let inp = any_inputs();
        let (cnt, sum, _, _) = stats(&inp);
        let a = run(AggregateFunction::Avg, &inp);
        kani::cover!(cnt == 2);
        if cnt == 0 {
            assert!(matches!(a, ScalarValue::Null), "C21.avg_of_no_non_null_is_null");
        } else {
            let want = sum as f64 / cnt as f64;
            assert!(
                matches!(a, ScalarValue::Float64(v) if v.into_inner().to_bits() == want.to_bits()),
                "C21.avg_is_sum_over_count_of_non_null"
            );
        }
        std::mem::forget(a);
    }

    /// MIN/MAX with the SHAPE concrete (which inputs are NULL, where the morsel boundary is, which update path) and only
    /// the values symbolic, so that every Option<ScalarValue> the accumulators overwrite has a constant variant tag
    fn min_max_shape(n0: bool, n1: bool, split: usize, slow: bool, is_min: bool) {
        let v0: i64 = kani::any();
        let v1: i64 = kani::any();
        let x0 = if n0 { None } else { Some(v0) };
        let x1 = if n1 { None } else { Some(v1) };
        let func = if is_min { AggregateFunction::Min } else { AggregateFunction::Max };
        let mut left = AccumulatorState::new(&func, &DataType::Int64);
        let mut right = AccumulatorState::new(&func, &DataType::Int64);
        if 0 < split { feed(&mut left, x0, slow) } else { feed(&mut right, x0, slow) }
        if 1 < split { feed(&mut left, x1, slow) } else { feed(&mut right, x1, slow) }
        left.merge(&right);
        let got = left.finalize(&func);
        let want = match (x0, x1) {
            (None, None) => None,
            (Some(a), None) | (None, Some(a)) => Some(a),
            (Some(a), Some(b)) => Some(if is_min { a.min(b) } else { a.max(b) }),
        };
        match want {
            None => assert!(matches!(got, ScalarValue::Null), "C21.min_max_of_no_non_null_is_null"),
            Some(m) => assert!(matches!(got, ScalarValue::Int64(v) if v == m), "C21.min_max_is_extremum_of_non_null"),
        }
        std::mem::forget((left, right, got));
    }

    // @harness tiers=experimental timeout=2400
    // @encodes physical::morsel_agg::AccumulatorState::update, physical::morsel_agg::AccumulatorState::update_i64, physical::morsel_agg::AccumulatorState::merge, physical::morsel_agg::AccumulatorState::finalize, physical::morsel_agg::compare_scalar_values
    // @bounds MIN and MAX over 2 BIGINT inputs, all i64 values; every NULL pattern x morsel boundary (0,1,2) x update path iterated concretely (48 shapes)
    // @oracle NULL iff no non-NULL input, else the integer minimum / maximum of the non-NULL inputs
    #[kani::proof]
    #[kani::unwind(2)]
    fn min_max_two_inputs_all_shapes() {
        let mut n = 0u32;
        macro_rules! shapes {
            ($n0:expr, $n1:expr) => {
                min_max_shape($n0, $n1, 0, false, true);
                min_max_shape($n0, $n1, 1, false, true);
                min_max_shape($n0, $n1, 2, false, true);
                min_max_shape($n0, $n1, 0, true, true);
                min_max_shape($n0, $n1, 1, true, true);
                min_max_shape($n0, $n1, 2, true, true);
                min_max_shape($n0, $n1, 0, false, false);
                min_max_shape($n0, $n1, 1, false, false);
                min_max_shape($n0, $n1, 2, false, false);
                min_max_shape($n0, $n1, 0, true, false);
                min_max_shape($n0, $n1, 1, true, false);
                min_max_shape($n0, $n1, 2, true, false);
                n += 12;
            };
        }
        shapes!(false, false);
        shapes!(false, true);
        shapes!(true, false);
        shapes!(true, true);
        kani::cover!(n == 48);
    }

    fn feed_f64(acc: &mut AccumulatorState, x: Option<i16>, slow: bool) {
        match (x, slow) {
            (Some(v), false) => acc.update_f64(v as f64),
            (None, false) => {}
            (Some(v), true) => {
                let sv = ScalarValue::Float64(ordered_float::OrderedFloat(v as f64));
                acc.update(&sv);
                std::mem::forget(sv);
            }
            (None, true) => {
                let sv = ScalarValue::Null;
                acc.update(&sv);
                std::mem::forget(sv);
            }
        }
    }

    // @harness tiers=experimental timeout=2400
    // @encodes physical::morsel_agg::AccumulatorState::new, physical::morsel_agg::AccumulatorState::update, physical::morsel_agg::AccumulatorState::update_f64, physical::morsel_agg::AccumulatorState::merge, physical::morsel_agg::AccumulatorState::finalize, physical::morsel_agg::scalar_to_f64
    // @bounds SUM over 3 DOUBLE inputs, each NULL or an integer-valued double |x| < 2^15 (so every partial sum is exact and order-independent), any morsel boundary, typed fast path or ScalarValue slow path (on which NULLs reach the accumulator)
    // @oracle SUM = NULL iff no non-NULL input (never 0.0), else the exact sum
    #[kani::proof]
    #[kani::unwind(2)]
    fn sum_of_doubles_ignores_nulls() {
        let x: [Option<i16>; 3] = [kani::any(), kani::any(), kani::any()];
        let split: usize = kani::any();
        kani::assume(split <= 3);
        let slow: bool = kani::any();
        let func = AggregateFunction::Sum;
        let mut left = AccumulatorState::new(&func, &DataType::Float64);
        let mut right = AccumulatorState::new(&func, &DataType::Float64);
        if 0 < split { feed_f64(&mut left, x[0], slow) } else { feed_f64(&mut right, x[0], slow) }
        if 1 < split { feed_f64(&mut left, x[1], slow) } else { feed_f64(&mut right, x[1], slow) }
        if 2 < split { feed_f64(&mut left, x[2], slow) } else { feed_f64(&mut right, x[2], slow) }
        left.merge(&right);
        let out = left.finalize(&func);
        let cnt = x[0].is_some() as i32 + x[1].is_some() as i32 + x[2].is_some() as i32;
        let sum = x[0].unwrap_or(0) as i32 + x[1].unwrap_or(0) as i32 + x[2].unwrap_or(0) as i32;
        kani::cover!(cnt == 0 && slow);
        kani::cover!(cnt == 2);
        if cnt == 0 {
            assert!(matches!(out, ScalarValue::Null), "C21.sum_of_doubles_with_no_non_null_is_null");
        } else {
            assert!(matches!(out, ScalarValue::Float64(v) if v.into_inner() == sum as f64), "C21.sum_of_doubles_is_exact_over_non_null");
        }
        std::mem::forget((left, right, out));
    }

    // @harness tiers=quick,thorough
    // @encodes physical::morsel_agg::AggregationState::slot_has_data
    // @bounds keys of 0..=2 columns, each NULL or BIGINT; 0..=2 accumulators in their initial state (a group whose aggregated inputs were all NULL)
    // @oracle the global (empty-key) slot with accumulators and every slot with a non-NULL key column are never dropped (a slot whose key is NULL in every column is the region of known finding C21-null-key-all-null-inputs-dropped, pinned below)
    #[kani::proof]
    #[kani::unwind(4)]
    fn occupied_slots_are_never_dropped() {
        let nkeys: usize = kani::any();
        let naccs: usize = kani::any();
        kani::assume(nkeys <= 2 && naccs <= 2);
        let mut values = Vec::with_capacity(2);
        let mut any_non_null = false;
        let mut i = 0;
        while i < nkeys {
            if kani::any() {
                values.push(ScalarValue::Null);
            } else {
                values.push(ScalarValue::Int64(kani::any()));
                any_non_null = true;
            }
            i += 1;
        }
        let mut accs = Vec::with_capacity(2);
        let mut j = 0;
        while j < naccs {
            accs.push(if kani::any() { AccumulatorState::Count(0) } else { AccumulatorState::Min(None) });
            j += 1;
        }
        let key = GroupKey { values };
        let has = AggregationState::slot_has_data(&key, &accs);
        kani::cover!(!has);
        kani::cover!(has && nkeys == 0);
        if any_non_null {
            assert!(has, "C21.group_with_non_null_key_is_kept");
        }
        if nkeys == 0 && naccs > 0 {
            assert!(has, "C21.global_aggregate_always_has_its_row");
        }
        std::mem::forget(key);
        std::mem::forget(accs);
    }

    // @harness tiers=quick,thorough finding=C21-null-key-all-null-inputs-dropped
    // @encodes physical::morsel_agg::AggregationState::slot_has_data
    // @bounds an OCCUPIED slot whose grouping key is NULL (one or two key columns, all NULL) and whose accumulators saw only NULL inputs (COUNT = 0, MIN/MAX/SUM empty)
    // @oracle NULL grouping keys form one group, and a group with no non-NULL input still yields a row (COUNT 0, NULL for the rest): the slot must be kept
    #[kani::proof]
    #[kani::unwind(4)]
    fn kf_null_key_group_with_only_null_inputs_is_kept() {
        let two: bool = kani::any();
        let mut values = Vec::with_capacity(2);
        values.push(ScalarValue::Null);
        if two {
            values.push(ScalarValue::Null);
        }
        let mut accs = Vec::with_capacity(2);
        accs.push(AccumulatorState::Count(0));
        accs.push(if kani::any() { AccumulatorState::Max(None) } else { AccumulatorState::SumInt(0, false) });
        let key = GroupKey { values };
        let has = AggregationState::slot_has_data(&key, &accs);
        kani::cover!(two);
        assert!(has, "C21.null_key_group_with_only_null_inputs_is_kept");
        std::mem::forget(key);
        std::mem::forget(accs);
    }

    // @harness tiers=quick,thorough finding=C21-null-key-collides-with-minus-one
    // @encodes physical::morsel_agg::scalar_to_raw_key
    // @bounds every BIGINT / INTEGER / DATE grouping value v against NULL
    // @oracle NULL grouping keys form their own group: raw key of NULL differs from the raw key of every non-NULL value (the perfect-hash path identifies integer groups by this u64 alone, without a verification step)
    #[kani::proof]
    fn kf_null_key_is_its_own_group() {
        let v: i64 = kani::any();
        let w: i32 = kani::any();
        let k_null = scalar_to_raw_key(&ScalarValue::Null);
        kani::cover!(v == -1);
        assert!(scalar_to_raw_key(&ScalarValue::Int64(v)) != k_null, "C21.null_key_distinct_from_bigint");
        assert!(scalar_to_raw_key(&ScalarValue::Int32(w)) != k_null, "C21.null_key_distinct_from_int32");
        assert!(scalar_to_raw_key(&ScalarValue::Date32(w)) != k_null, "C21.null_key_distinct_from_date");
    }

    // @harness tiers=quick,thorough
    // @encodes physical::morsel_agg::scalar_to_raw_key
    // @bounds all pairs of BIGINT values, all pairs of INTEGER values
    // @oracle distinct non-NULL integer keys have distinct raw keys (no two groups are merged)
    #[kani::proof]
    fn raw_key_is_injective_on_integers() {
        let (a, b): (i64, i64) = kani::any();
        let (c, d): (i32, i32) = kani::any();
        kani::cover!(a != b);
        if a != b {
            assert!(scalar_to_raw_key(&ScalarValue::Int64(a)) != scalar_to_raw_key(&ScalarValue::Int64(b)), "C21.raw_key_injective_bigint");
        }
        if c != d {
            assert!(scalar_to_raw_key(&ScalarValue::Int32(c)) != scalar_to_raw_key(&ScalarValue::Int32(d)), "C21.raw_key_injective_int32");
        }
    }

    // @playback
}
