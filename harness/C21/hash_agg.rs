// @target src/physical/operators/hash_agg.rs
//
// Hash-aggregation path (DESIGN §4/C21): merging two partial accumulator states is a homomorphism for the fields
// that decide COUNT / SUM / AVG / MIN / MAX and their NULL-ness (added after seed C21-m2). The partial states are
// built directly in the representation the update path maintains for an integer input (count = number of
// non-NULL inputs seen, sum_i64 / min_i64 / max_i64 over them, min/max None when none was seen): the update path
// itself (`update_accumulator`, Arrow arrays) and finalisation (`build_agg_array`) are Arrow-bound and outside.
#[cfg(kani)]
mod __verif_c21h {
    use super::*;

    fn partial(a: Option<i64>, b: Option<i64>) -> AccumulatorState {
        let mut s = AccumulatorState::default();
        let mut feed = |x: Option<i64>| {
            if let Some(v) = x {
                s.count += 1;
                s.sum_i64 += v;
                s.sum += v as f64;
                s.min_i64 = Some(s.min_i64.map_or(v, |m| m.min(v)));
                s.max_i64 = Some(s.max_i64.map_or(v, |m| m.max(v)));
            }
        };
        feed(a);
        feed(b);
        s
    }

    fn small(x: Option<i64>) -> bool {
        x.map_or(true, |v| v > -(1i64 << 40) && v < (1i64 << 40))
    }

    // @harness tiers=quick,thorough
    // @encodes physical::operators::hash_agg::merge_accumulator_states
    // @bounds two partial states, each over 0..=2 inputs that are NULL or BIGINT |x| < 2^40 (so a thread's first chunk may have seen only NULLs for the group); aggregate in {COUNT, SUM, AVG, MIN, MAX} (symbolic)
    // @oracle merge(target, source) equals the state of the union of the inputs on every field that decides the aggregate and its NULL-ness: COUNT/SUM/AVG add `count` (SUM is NULL iff count == 0), SUM adds sum_i64 exactly, MIN/MAX combine with None = "no non-NULL input seen"
    #[kani::proof]
    #[kani::unwind(3)]
    fn merging_partial_states_is_a_homomorphism() {
        let x: [Option<i64>; 4] = [kani::any(), kani::any(), kani::any(), kani::any()];
        kani::assume(small(x[0]) && small(x[1]) && small(x[2]) && small(x[3]));
        let mut target = partial(x[0], x[1]);
        let source = partial(x[2], x[3]);
        let whole = {
            let mut w = partial(x[0], x[1]);
            // fold the other two inputs into the same state: the reference for "all four inputs"
            let o = partial(x[2], x[3]);
            w.count += o.count;
            w.sum_i64 += o.sum_i64;
            w.min_i64 = match (w.min_i64, o.min_i64) { (Some(a), Some(b)) => Some(a.min(b)), (a, None) => a, (None, b) => b };
            w.max_i64 = match (w.max_i64, o.max_i64) { (Some(a), Some(b)) => Some(a.max(b)), (a, None) => a, (None, b) => b };
            std::mem::forget(o);
            w
        };
        let k: u8 = kani::any();
        kani::assume(k < 5);
        let func = match k {
            0 => AggregateFunction::Count,
            1 => AggregateFunction::Sum,
            2 => AggregateFunction::Avg,
            3 => AggregateFunction::Min,
            _ => AggregateFunction::Max,
        };
        merge_accumulator_states(&mut target, &source, &func);
        kani::cover!(target.count == 3 && k == 1);
        kani::cover!(x[0].is_none() && x[1].is_none() && x[2].is_some() && k == 1);
        match k {
            0 => assert!(target.count == whole.count, "C21.hash_merge_count"),
            1 => {
                assert!(target.count == whole.count, "C21.hash_merge_sum_keeps_the_non_null_count");
                assert!(target.sum_i64 == whole.sum_i64, "C21.hash_merge_sum_exact");
            }
            2 => assert!(target.count == whole.count, "C21.hash_merge_avg_count"),
            3 => assert!(target.min_i64 == whole.min_i64, "C21.hash_merge_min"),
            _ => assert!(target.max_i64 == whole.max_i64, "C21.hash_merge_max"),
        }
        std::mem::forget(target);
        std::mem::forget(source);
        std::mem::forget(whole);
    }

    // @playback
}
