// @target src/physical/operators/filter.rs
//
// LIKE / NOT LIKE (DESIGN §4/C36, shared with C02/H2): the general matcher `like_match` and the
// per-batch fast path `classify_like(p).matches(t)` against the textbook definition of LIKE.
#[cfg(kani)]
mod __verif_c36 {
    use super::*;

    /// textbook LIKE over bytes (ASCII text, so one byte = one character), dynamic programming:
    /// m[i][j] <=> text[i..] matches pattern[j..]
    fn like_ref(t: &[u8], p: &[u8]) -> bool {
        let (tl, pl) = (t.len(), p.len());
        let mut m = [[false; 4]; 4];
        let mut i = tl + 1;
        while i > 0 {
            i -= 1;
            let mut j = pl + 1;
            while j > 0 {
                j -= 1;
                m[i][j] = if j == pl {
                    i == tl
                } else if p[j] == b'%' {
                    m[i][j + 1] || (i < tl && m[i + 1][j])
                } else if p[j] == b'_' {
                    i < tl && m[i + 1][j + 1]
                } else {
                    i < tl && t[i] == p[j] && m[i + 1][j + 1]
                };
            }
        }
        m[0][0]
    }

    fn gen() -> ([u8; 3], [u8; 3]) {
        let tb: [u8; 3] = [kani::any(), kani::any(), kani::any()];
        let pb: [u8; 3] = [kani::any(), kani::any(), kani::any()];
        let mut i = 0;
        while i < 3 {
            // text over {a, b, c}; pattern over {a, b, %, _}
            kani::assume(tb[i] >= b'a' && tb[i] <= b'c');
            kani::assume(pb[i] == b'a' || pb[i] == b'b' || pb[i] == b'%' || pb[i] == b'_');
            i += 1;
        }
        (tb, pb)
    }

    /// the general backtracking matcher against the textbook definition
    fn general(tl: usize, pl: usize) {
        let (tb, pb) = gen();
        let t = unsafe { std::str::from_utf8_unchecked(&tb[..tl]) };
        let p = unsafe { std::str::from_utf8_unchecked(&pb[..pl]) };
        let want = like_ref(&tb[..tl], &pb[..pl]);
        let got = like_match(t, p);
        kani::cover!(want);
        kani::cover!(!want || tl + pl == 0);
        assert!(got == want, "C36.like_match_is_sql_like");
    }

    /// the per-batch fast path the interpreter takes for a constant pattern, against the general matcher's definition
    fn fast(tl: usize, pl: usize) {
        let (tb, pb) = gen();
        let t = unsafe { std::str::from_utf8_unchecked(&tb[..tl]) };
        let p = unsafe { std::str::from_utf8_unchecked(&pb[..pl]) };
        let want = like_ref(&tb[..tl], &pb[..pl]);
        let got = classify_like(p).matches(t);
        kani::cover!(want);
        kani::cover!(!want || tl + pl == 0);
        assert!(got == want, "C36.classified_fast_path_is_sql_like");
    }

    // @harness tiers=quick,thorough timeout=900
    // @encodes physical::operators::filter::like_match
    // @bounds text of length 0..=2 over {a,b,c}, pattern of length 0..=2 over {a,b,%,_}; the 9 length pairs iterated concretely, all bytes symbolic
    // @oracle textbook LIKE (% = any sequence incl. empty, _ = exactly one character, anything else literal), dynamic programming in the harness; the empty pattern matches only the empty string; NOT LIKE is the negation on non-NULL operands (the interpreter negates this boolean)
    // @out longer strings, non-ASCII text, escape characters, every other scalar function (Arrow arrays in/out, regex, chrono, serde_json ...)
    #[kani::proof]
    #[kani::unwind(6)]
    fn like_match_up_to_2x2() {
        general(0, 0);
        general(0, 1);
        general(0, 2);
        general(1, 0);
        general(1, 1);
        general(1, 2);
        general(2, 0);
        general(2, 1);
        general(2, 2);
    }

    // @harness tiers=quick,thorough timeout=900
    // @encodes physical::operators::filter::like_match
    // @bounds text of length 3 against patterns of length 2 and 3 (e.g. `%a%`, `a_%`, `_%_`, `%%a`, `a%b`: backtracking over the last %)
    // @oracle as like_match_up_to_2x2
    // @unwindset filter::like_match:10
    #[kani::proof]
    #[kani::unwind(7)]
    fn like_match_text3() {
        general(3, 2);
        general(3, 3);
    }

    // @harness tiers=quick,thorough timeout=900
    // @encodes physical::operators::filter::classify_like, physical::operators::filter::LikeKind::matches
    // @bounds constant-pattern fast path (what the interpreter runs per batch for `col LIKE 'const'`): text of length 0..=1, pattern of length 0..=2; All / Exact / Prefix / Suffix / General shapes reachable
    // @oracle the classified matcher returns the textbook LIKE result (so the fast path is indistinguishable from the general matcher)
    // @unwindset memchr::memchr_naive#0:4 memcmp#0:4 __verif_c36::gen#0:4 __verif_c36::like_ref#0:4 __verif_c36::like_ref#1:4 filter::like_match#0:8
    #[kani::proof]
    #[kani::unwind(2)]
    fn like_fast_path_short_texts() {
        fast(0, 0);
        fast(1, 1);
        fast(1, 2);
    }

    // @harness tiers=thorough timeout=2400
    // @encodes physical::operators::filter::classify_like, physical::operators::filter::LikeKind::matches
    // @bounds fast path with text of length 2 against patterns of length 1 and 2 (Contains `%a%` is not reachable below pattern length 3; `%%`, `a%`, `%a`, `_a` ... are)
    // @oracle as like_fast_path_short_texts
    // @unwindset memchr::memchr_naive#0:4 memcmp#0:4 __verif_c36::gen#0:4 __verif_c36::like_ref#0:4 __verif_c36::like_ref#1:4 filter::like_match#0:8
    #[kani::proof]
    #[kani::unwind(2)]
    fn like_fast_path_up_to_2x2() {
        fast(2, 1);
        fast(2, 2);
    }

    // @harness tiers=thorough timeout=2400
    // @encodes physical::operators::filter::classify_like, physical::operators::filter::LikeKind::matches
    // @bounds fast path with patterns of length 3 (`a%b`, `%a%`, `ab%`, `%ab`, `a_%` ...: every classified shape incl. Contains and wildcard-in-the-middle) against texts of length 1 and 2 (shorter than, and overlapping, prefix + suffix)
    // @oracle as like_fast_path_short_texts
    // @unwindset {closure#0}}>::{closure#0}}>#0:4 ops::ControlFlow>#0:4 memchr::memchr_naive#0:4 memcmp#0:4 __verif_c36::gen#0:4 __verif_c36::like_ref#0:8 __verif_c36::like_ref#1:4 filter::like_match#0:8
    #[kani::proof]
    #[kani::unwind(2)]
    fn like_fast_path_pattern3() {
        fast(1, 3);
        fast(2, 3);
    }

    // @harness tiers=experimental timeout=2400
    // @encodes physical::operators::filter::like_match, physical::operators::filter::classify_like, physical::operators::filter::LikeKind::matches
    // @bounds general matcher: patterns of length 3 against texts of length 0..=2; fast path: text 3 x pattern 3
    // @oracle as above
    // @unwindset TwoWaySearcher:5 small_slice_eq:5 ceil_char_boundary:5 maximal_suffix:5 filter::like_match:10
    #[kani::proof]
    #[kani::unwind(7)]
    fn like_remaining_length_pairs() {
        general(0, 3);
        general(1, 3);
        general(2, 3);
        fast(3, 3);
    }

    // @playback
}
