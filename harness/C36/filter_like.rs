// @target src/physical/operators/filter.rs
//
// LIKE / NOT LIKE (DESIGN §4/C36, shared with C02/H2): the general matcher `like_match` and the
// per-batch fast path `classify_like(p).matches(t)` against the textbook definition of LIKE.
#[cfg(kani)]
mod __verif_c36 {
    use super::*;

    /// textbook LIKE over bytes (ASCII text, so one byte = one character), dynamic programming:
    /// m[i][j] <=> text[i..] matches pattern[j..]
    fn like_ref(t: &[u8], p: &[u8]) -> bool {
        let (tl, pl) = (t.len(), p.len());
        let mut m = [[false; 4]; 4];
        let mut i = tl + 1;
        while i > 0 {
            i -= 1;
            let mut j = pl + 1;
            while j > 0 {
                j -= 1;
                m[i][j] = if j == pl {
                    i == tl
                } else if p[j] == b'%' {
                    m[i][j + 1] || (i < tl && m[i + 1][j])
                } else if p[j] == b'_' {
                    i < tl && m[i + 1][j + 1]
                } else {
                    i < tl && t[i] == p[j] && m[i + 1][j + 1]
                };
            }
        }
        m[0][0]
    }

    fn case(tl: usize, pl: usize) {
        let tb: [u8; 3] = kani::any();
        let pb: [u8; 3] = kani::any();
        let mut i = 0;
        while i < 3 {
            // text over {a, b, c}; pattern over {a, b, %, _}
            kani::assume(tb[i] >= b'a' && tb[i] <= b'c');
            kani::assume(pb[i] == b'a' || pb[i] == b'b' || pb[i] == b'%' || pb[i] == b'_');
            i += 1;
        }
        let t = unsafe { std::str::from_utf8_unchecked(&tb[..tl]) };
        let p = unsafe { std::str::from_utf8_unchecked(&pb[..pl]) };
        let want = like_ref(&tb[..tl], &pb[..pl]);
        let general = like_match(t, p);
        let fast = classify_like(p).matches(t);
        kani::cover!(want);
        kani::cover!(!want || tl + pl == 0);
        assert!(general == want, "C36.like_match_is_sql_like");
        assert!(fast == want, "C36.classified_fast_path_is_sql_like");
    }

    // @harness tiers=quick,thorough timeout=900
    // @encodes physical::operators::filter::like_match, physical::operators::filter::classify_like, physical::operators::filter::LikeKind::matches
    // @bounds text of length 0..=1 over {a,b,c}, pattern of length 0..=2 over {a,b,%,_}; the 6 length pairs iterated concretely, all bytes symbolic
    // @oracle textbook LIKE (% = any sequence incl. empty, _ = exactly one character, anything else literal); the empty pattern matches only the empty string; NOT LIKE is the negation on non-NULL operands (the interpreter negates this boolean)
    // @out longer strings, non-ASCII text, escape characters, every other scalar function (Arrow arrays in/out, regex, chrono, serde_json ...)
    // @unwindset like_match:5
    #[kani::proof]
    #[kani::unwind(6)]
    fn like_short_texts() {
        case(0, 0);
        case(0, 1);
        case(0, 2);
        case(1, 0);
        case(1, 1);
        case(1, 2);
    }

    // @harness tiers=quick,thorough timeout=900
    // @encodes physical::operators::filter::like_match, physical::operators::filter::classify_like, physical::operators::filter::LikeKind::matches
    // @bounds text of length 2 over {a,b,c} against patterns of length 0..=2 over {a,b,%,_}
    // @oracle as like_short_texts
    // @unwindset like_match:6
    #[kani::proof]
    #[kani::unwind(6)]
    fn like_text2() {
        case(2, 0);
        case(2, 1);
        case(2, 2);
    }

    // @harness tiers=quick,thorough timeout=900
    // @encodes physical::operators::filter::like_match, physical::operators::filter::classify_like, physical::operators::filter::LikeKind::matches
    // @bounds text of length 3 over {a,b,c} against patterns of length 3 over {a,b,%,_} (e.g. `%a%`, `a_%`, `_%_`, `%%a`, `a%b`)
    // @oracle as like_short_texts
    // @unwindset like_match:9
    #[kani::proof]
    #[kani::unwind(7)]
    fn like_text3_pattern3() {
        case(3, 3);
    }

    // @harness tiers=thorough timeout=2400
    // @encodes physical::operators::filter::like_match, physical::operators::filter::classify_like, physical::operators::filter::LikeKind::matches
    // @bounds text of length 3 against patterns of length 2; patterns of length 3 against texts of length 0..=2
    // @oracle as like_short_texts
    // @unwindset like_match:9
    #[kani::proof]
    #[kani::unwind(7)]
    fn like_remaining_length_pairs() {
        case(3, 2);
        case(0, 3);
        case(1, 3);
        case(2, 3);
    }

    // @playback
}
