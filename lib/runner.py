#!/usr/bin/env python3
"""Runner for the solver-based checks of iceberg-query-engine (see DESIGN.md §2).

For one property id it
  1. re-creates a scratch overlay of /repo's *current working tree*,
  2. appends the `#[cfg(kani)] mod __verif_*` harness modules found in
     /verif/harness/<ID>/*.rs to the source files they target,
  3. runs `cargo kani` (CBMC + CaDiCaL) on the harnesses of the requested tier,
  4. classifies every harness (discharged / inconclusive / counterexample),
  5. replays counterexamples natively (`cargo kani playback`) before reporting,
  6. matches reproduced counterexamples against /verif/known_findings.txt,
  7. writes /verif/evidence/<ID>.json.

Exit status: 0 = every harness discharged (known findings are printed as
`KNOWN-FINDING:` lines and do not fail the check); 1 = a reproduced
counterexample that is not a listed finding (`VIOLATION property=<ID>
replay=<path>`); 2 = inconclusive (build error, time-out, memory cap, failed
unwinding assertion, unsatisfied cover, counterexample that does not reproduce).
Python standard library only.
"""
import argparse
import fcntl
import hashlib
import json
import os
import re
import shutil
import subprocess
import sys
import time

VERIF = os.path.dirname(os.path.dirname(os.path.abspath(__file__)))
REPO = os.environ.get("VERIF_REPO", "/repo")
CACHE = os.environ.get("VERIF_CACHE", os.path.join(VERIF, ".cache"))
KANI_TARGET = os.environ.get("VERIF_KANI_TARGET", os.path.join(CACHE, "kani-target"))
PLAYBACK_TARGET = os.environ.get("VERIF_PLAYBACK_TARGET", os.path.join(CACHE, "playback-target"))
OVERLAY = os.environ.get("VERIF_OVERLAY", "/var/tmp/qe-verif/overlay")
LOCK = os.environ.get("VERIF_LOCK", os.path.join(CACHE, "lock"))
JOBS = int(os.environ.get("VERIF_JOBS", "8"))

TIER_CAPS = {
    "experimental": (int(os.environ.get("VERIF_THOROUGH_TIMEOUT", "2400")), 28 * 1024 * 1024),
    # (per-harness time-out seconds, address-space cap in KiB for every child process)
    "quick": (int(os.environ.get("VERIF_QUICK_TIMEOUT", "420")), 14 * 1024 * 1024),
    "thorough": (int(os.environ.get("VERIF_THOROUGH_TIMEOUT", "2400")), 28 * 1024 * 1024),
}

ENV = dict(os.environ)
ENV.update({"CARGO_NET_OFFLINE": "true", "CARGO_TERM_COLOR": "never"})
# the overlay must never pick up a toolchain override from the caller
ENV.pop("RUSTUP_TOOLCHAIN", None)
ENV.pop("CARGO_TARGET_DIR", None)
ENV.pop("RUSTFLAGS", None)


def log(msg):
    print(msg, flush=True)


# --------------------------------------------------------------------------
# harness files
# --------------------------------------------------------------------------

class Harness:
    def __init__(self):
        self.name = None
        self.module = None        # e.g. execution::topology::__verif_c42
        self.file = None          # harness source file
        self.target = None        # repo source file it is appended to
        self.tiers = ["quick", "thorough"]
        self.meta = {}            # bounds / encodes / oracle / out ...
        self.attrs = []           # #[kani::...] lines
        self.assumes = []
        self.covers = []
        self.finding = None       # id in known_findings.txt when this is a finding harness
        self.replay = "playback"  # or "none:<reason>"
        self.timeout = None
        self.solver = None
        self.mode = "O"           # "O" overlay crate, "S:<name>" single-module scratch crate under modes/<name>
        self.foreign = None       # owning property id when this harness is re-used by another property (C29)

    @property
    def full(self):
        return f"{self.module}::{self.name}"


def module_path_of(target):
    p = target
    if p.startswith("src/"):
        p = p[4:]
    if p.endswith(".rs"):
        p = p[:-3]
    parts = [x for x in p.split("/") if x]
    if parts and parts[-1] in ("mod", "lib"):
        parts = parts[:-1]
    return "::".join(parts)


def _balanced(text, start, open_ch, close_ch):
    """index just after the bracket that closes the one at text[start]."""
    depth = 0
    i = start
    n = len(text)
    in_str = False
    while i < n:
        c = text[i]
        if in_str:
            if c == "\\":
                i += 2
                continue
            if c == '"':
                in_str = False
        else:
            if c == '"':
                in_str = True
            elif c == "/" and text[i:i + 2] == "//":
                j = text.find("\n", i)
                i = n if j < 0 else j
                continue
            elif c == "'" and i + 2 < n and (text[i + 2] == "'" or (text[i + 1] == "\\" and text.find("'", i + 2) - i <= 4)):
                # char literal such as '{' or '\n'
                j = text.find("'", i + 2 if text[i + 1] != "\\" else i + 3)
                i = j + 1
                continue
            elif c == open_ch:
                depth += 1
            elif c == close_ch:
                depth -= 1
                if depth == 0:
                    return i + 1
        i += 1
    return n


def _calls(body, prefix):
    out = []
    for m in re.finditer(re.escape(prefix) + r"\s*\(", body):
        end = _balanced(body, m.end() - 1, "(", ")")
        out.append(" ".join(body[m.end():end - 1].split()))
    return out


def parse_harness_file(path):
    text = open(path).read()
    tm = re.search(r"^// @target\s+(\S+)", text, re.M)
    mm = re.search(r"^\s*(?:pub\s+)?mod\s+(__verif_\w+)\s*\{", text, re.M)
    if not tm or not mm:
        raise SystemExit(f"{path}: missing // @target or mod __verif_*")
    target = tm.group(1)
    modname = mm.group(1)
    mode_m = re.search(r"^// @mode\s+(\S+)", text, re.M)
    file_mode = mode_m.group(1) if mode_m else "O"
    modpath = module_path_of(target)
    module = f"{modpath}::{modname}" if modpath else modname
    harnesses = []
    for m in re.finditer(r"^[ \t]*// @harness\b(.*)$", text, re.M):
        h = Harness()
        h.file = path
        h.target = target
        h.module = module
        h.mode = file_mode
        for kv in m.group(1).split():
            if "=" in kv:
                k, v = kv.split("=", 1)
                if k == "tiers":
                    h.tiers = v.split(",")
                elif k == "timeout":
                    h.timeout = int(v)
                elif k == "finding":
                    h.finding = v
                elif k == "replay":
                    h.replay = v
                elif k == "solver":
                    h.solver = v
        pos = m.end()
        # following annotation / attribute lines up to `fn name(`
        rest = text[pos:]
        fnm = re.search(r"\bfn\s+(\w+)\s*\(", rest)
        head = rest[:fnm.start()]
        h.name = fnm.group(1)
        for line in head.splitlines():
            line = line.strip()
            am = re.match(r"// @(\w+)\s+(.*)$", line)
            if am:
                h.meta.setdefault(am.group(1), []).append(am.group(2))
            elif line.startswith("#["):
                h.attrs.append(line)
        bstart = rest.find("{", fnm.end())
        bend = _balanced(rest, bstart, "{", "}")
        body = rest[bstart:bend]
        h.assumes = _calls(body, "kani::assume")
        h.covers = _calls(body, "kani::cover!")
        if h.meta.get("replay"):
            h.replay = h.meta["replay"][0]
        harnesses.append(h)
    return target, modname, text, harnesses


def load_property(pid):
    d = os.path.join(VERIF, "harness", pid)
    if not os.path.isdir(d):
        raise SystemExit(f"no harness directory for {pid}")
    files = []
    harnesses = []
    for fn in sorted(os.listdir(d)):
        if not fn.endswith(".rs"):
            continue
        target, modname, text, hs = parse_harness_file(os.path.join(d, fn))
        files.append((target, modname, text, os.path.join(d, fn)))
        harnesses.extend(hs)
    # reuse.txt: "<ID> <harness fn> [tiers]" lines -- harnesses of other properties re-run for THIS property, where
    # only Kani's own safety checks count (their functional assertions belong to the owning property)
    reuse = os.path.join(d, "reuse.txt")
    if os.path.exists(reuse):
        wanted = {}
        for line in open(reuse):
            line = line.split("#")[0].split()
            if len(line) >= 2:
                wanted.setdefault(line[0], {})[line[1]] = line[2].split(",") if len(line) > 2 else None
        for oid, names in wanted.items():
            ofiles, ohs = load_property(oid)
            for h in ohs:
                if h.name in names and not h.finding:
                    h.foreign = oid
                    if names[h.name]:
                        h.tiers = names[h.name]
                    harnesses.append(h)
                    for f in ofiles:
                        if f[3] == h.file and f not in files:
                            files.append(f)
    return files, harnesses


# --------------------------------------------------------------------------
# known findings
# --------------------------------------------------------------------------

def load_known():
    """known_findings.txt lines:
         known: property=<ID> id=<finding-id> harness=<fn> check=<label or description regex> :: <what fails>
         fixed: property=<ID> <commit> <what failed>
       Only `known:` lines suppress anything; the file is never written at run time."""
    path = os.path.join(VERIF, "known_findings.txt")
    known = []
    if not os.path.exists(path):
        return known
    for line in open(path):
        line = line.strip()
        if not line.startswith("known:"):
            continue
        head, _, what = line[len("known:"):].partition("::")
        ent = {"what": what.strip()}
        for m in re.finditer(r'(\w+)=("([^"]*)"|\S+)', head):
            ent[m.group(1)] = m.group(3) if m.group(3) is not None else m.group(2)
        known.append(ent)
    return known


# --------------------------------------------------------------------------
# overlay
# --------------------------------------------------------------------------

def make_overlay(files):
    os.makedirs(OVERLAY, exist_ok=True)
    srcs = [os.path.join(REPO, x) for x in ("Cargo.toml", "Cargo.lock", "src", "benches")]
    srcs = [s for s in srcs if os.path.exists(s)]
    # checksum mode: content decides, so an edited file with an old mtime is still copied
    subprocess.run(["rsync", "-a", "--delete", "--checksum", "--exclude", "target"] + srcs + [OVERLAY + "/"],
                   check=True)
    tgt = os.path.join(OVERLAY, "target")
    if os.path.islink(tgt) or os.path.exists(tgt):
        if os.path.islink(tgt):
            os.unlink(tgt)
        else:
            shutil.rmtree(tgt)
    os.makedirs(PLAYBACK_TARGET, exist_ok=True)
    os.symlink(PLAYBACK_TARGET, tgt)
    for target, modname, text, _ in files:
        p = os.path.join(OVERLAY, target)
        if not os.path.exists(p):
            raise Inconclusive(f"target file {target} does not exist in /repo's working tree")
        with open(p, "a") as f:
            f.write("\n\n// ---- appended by /verif (scratch overlay only) ----\n")
            f.write(text)
            f.write("\n")


class Inconclusive(Exception):
    pass


class Build:
    """Where a group of harnesses is compiled: the overlay crate itself (mode O) or a scratch crate that
    #[path]-includes one real source file of the overlay against environment shims (mode S)."""
    def __init__(self, mode):
        self.mode = mode
        if mode == "O":
            self.cwd = OVERLAY
            self.kani_target = KANI_TARGET
            self.playback_target = PLAYBACK_TARGET
            self.lib_flag = ["--lib"]
        else:
            name = mode.split(":", 1)[1]
            self.name = name
            self.cwd = os.path.join(os.path.dirname(OVERLAY), "modeS-" + name)
            self.kani_target = KANI_TARGET + "-" + name
            self.playback_target = PLAYBACK_TARGET + "-" + name
            self.lib_flag = ["--lib"]

    def prepare(self):
        if self.mode == "O":
            return
        src = os.path.join(VERIF, "modes", self.name)
        if os.path.isdir(self.cwd):
            for x in os.listdir(self.cwd):
                if x in ("target",):
                    continue
                px = os.path.join(self.cwd, x)
                if os.path.islink(px) or os.path.isfile(px):
                    os.unlink(px)
                else:
                    shutil.rmtree(px)
        os.makedirs(self.cwd, exist_ok=True)
        for x in os.listdir(src):
            sx = os.path.join(src, x)
            if os.path.isdir(sx):
                shutil.copytree(sx, os.path.join(self.cwd, x))
        shutil.copy(os.path.join(src, "Cargo.toml.in"), os.path.join(self.cwd, "Cargo.toml"))
        with open(os.path.join(self.cwd, "Cargo.toml"), "a") as f:
            f.write("\n[features]\ndefault = [\"verif_mode_s\"]\nverif_mode_s = []\n")
        shutil.copy(os.path.join(OVERLAY, "Cargo.lock"), os.path.join(self.cwd, "Cargo.lock"))
        gen = getattr(sys.modules[__name__], "gen_mode_" + self.name)
        gen(self.cwd)
        tgt = os.path.join(self.cwd, "target")
        if os.path.islink(tgt):
            os.unlink(tgt)
        elif os.path.exists(tgt):
            shutil.rmtree(tgt)
        os.makedirs(self.playback_target, exist_ok=True)
        os.symlink(self.playback_target, tgt)


def _extract_item(text, header_re):
    """verbatim copy of `#[derive..] pub enum/struct X { .. }` from real source text"""
    m = re.search(header_re, text, re.M)
    if not m:
        raise Inconclusive(f"mode S: cannot find {header_re} in the real source")
    start = m.start()
    # include preceding attribute / doc lines
    lines = text[:start].splitlines(keepends=True)
    i = len(lines)
    while i > 0 and (lines[i - 1].lstrip().startswith("#[") or lines[i - 1].lstrip().startswith("///")):
        i -= 1
    start = sum(len(l) for l in lines[:i])
    b = text.find("{", m.end() - 1)
    end = _balanced(text, b, "{", "}")
    return text[start:end] + "\n"


def gen_mode_rgp(cwd):
    """lib.rs of the row_group_pruning scratch crate: planner enums copied verbatim from the overlay's real
    sources, a subset `Expr`, and the real row_group_pruning.rs (with appended harness modules) via #[path]."""
    le = open(os.path.join(OVERLAY, "src/planner/logical_expr.rs")).read()
    sc = open(os.path.join(OVERLAY, "src/planner/schema.rs")).read()
    sv = _extract_item(le, r"^pub enum ScalarValue\s*\{")
    # the recursive List(Vec<ScalarValue>, ..) variant is never met by row_group_pruning.rs; dropping it keeps the
    # derived Clone/Drop glue of literals non-recursive (measured: it dominated symbolic execution)
    sv = re.sub(r"(?m)^\s*(///[^\n]*\n\s*)*List\([^\n]*\),\n", "", sv)
    # explicit tag bytes (layout only, semantics unchanged): lets CBMC constant-propagate the variant of a literal
    sv = sv.replace("pub enum ScalarValue", "#[repr(u8)]\npub enum ScalarValue")
    parts = [
        sv,
        _extract_item(le, r"^pub enum BinaryOp\s*\{"),
        _extract_item(le, r"^pub enum UnaryOp\s*\{"),
        _extract_item(sc, r"^pub struct Column\s*\{"),
    ]
    shim = open(os.path.join(VERIF, "modes", "rgp", "src", "planner_expr_shim.rs")).read()
    real = os.path.join(OVERLAY, "src/storage/row_group_pruning.rs")
    lib = ("#![allow(dead_code, unused_imports, unexpected_cfgs)]\n"
           "pub mod planner {\n    use ordered_float::OrderedFloat;\n    pub type Decimal = i128;\n"
           "    pub type ArrowDataType = arrow::datatypes::DataType;\n"
           + "".join(parts) + shim + "}\n"
           "pub mod storage {\n    #[path = \"" + real + "\"]\n    pub mod row_group_pruning;\n}\n")
    os.makedirs(os.path.join(cwd, "src"), exist_ok=True)
    with open(os.path.join(cwd, "src", "lib.rs"), "w") as f:
        f.write(lib)


def gen_mode_cut(cwd):
    """lib.rs of the split-cutting scratch crate (C11): every line of code under test is cut out of the overlay's
    real src/distributed/splits.rs on every run -- the three constants, `target_split_bytes`, the `Split` and
    `RowGroup` struct definitions (String/PathBuf fields retyped to a zero-sized token: names are irrelevant to the
    cutting arithmetic and heap strings are what kept the whole function out of reach), and the complete pass-2 block
    of `enumerate_parquet`. Only the wrapper `fn pass2(table, inventory, total_bytes, nodes)` is mine: it supplies as
    PARAMETERS what pass 1 computes from Parquet footers. If any piece cannot be found the check is inconclusive."""
    real = os.path.join(OVERLAY, "src/distributed/splits.rs")
    text = open(real).read()
    consts = []
    for name in ("MIN_SPLIT_BYTES", "MAX_SPLIT_BYTES", "SPLITS_PER_NODE"):
        m = re.search(r"^(?:pub(?:\([a-z]+\))?\s+)?const\s+" + name + r"\s*:[^;]*;", text, re.M)
        if not m:
            raise Inconclusive(f"mode S:cut: cannot find const {name} in the real source")
        consts.append(m.group(0) + "\n")
    m = re.search(r"^pub fn target_split_bytes\s*\(", text, re.M)
    if not m:
        raise Inconclusive("mode S:cut: cannot find fn target_split_bytes in the real source")
    b = text.find("{", m.end())
    tsb = text[m.start():_balanced(text, b, "{", "}")] + "\n"

    def retype(item):
        item = re.sub(r"(?m)^\s*#\[[^\n]*\]\n", "", item)          # derives / serde attributes
        item = re.sub(r"\b(String|PathBuf)\b", "Tok", item)
        return "#[derive(Clone, Debug)]\n" + item.lstrip()
    split_def = retype(_extract_item(text, r"^pub struct Split\s*\{"))
    rg_def = retype(_extract_item(text, r"^\s*struct RowGroup<'a>\s*\{"))
    ms = re.search(r"^[ \t]*let target = target_split_bytes\(", text, re.M)
    me = re.search(r"^[ \t]*splits\.sort\w*\(", text, re.M)
    if not ms or not me or me.start() <= ms.start():
        raise Inconclusive("mode S:cut: cannot delimit the pass-2 block of enumerate_parquet "
                           "(`let target = target_split_bytes(` .. `splits.sort_by(`) in the real source")
    fragment = text[ms.start():me.start()]
    hm = re.search(r"^#\[cfg\(all\(kani, feature = \"verif_mode_s\"\)\)\]\s*\nmod __verif_c11cut\s*\{", text, re.M)
    if not hm:
        raise Inconclusive("mode S:cut: harness module __verif_c11cut was not appended to the overlay")
    hb = text.find("{", hm.end() - 1)
    harness = text[hm.start():_balanced(text, hb, "{", "}")] + "\n"
    lib = ("#![allow(dead_code, unused_imports, unused_mut, unused_variables, unexpected_cfgs)]\n"
           "pub mod distributed {\npub mod splits {\n"
           "/// zero-sized stand-in for the String / PathBuf fields (table name, path, file name)\n"
           "#[derive(Clone, Copy, Debug, PartialEq, Eq)]\npub struct Tok;\n"
           "impl Tok { pub fn to_string(&self) -> Tok { Tok } }\n"
           + open(os.path.join(VERIF, "modes", "cut", "src", "vec_shim.rs")).read()
           + "".join(consts) + tsb + split_def + rg_def +
           "/// WRAPPER (mine): pass 1's results are parameters; the body is the real pass-2 block, verbatim\n"
           "pub fn pass2<'a>(table: &Tok, inventory: VecShim<RowGroup<'a>>, total_bytes: u64, nodes: usize) -> (u64, VecShim<Split>, VecShim<RowGroup<'a>>) {\n"
           "    type Vec<T> = VecShim<T>;\n"
           + fragment +
           "    (target, splits, inventory)\n}\n"
           + harness + "}\n}\n")
    os.makedirs(os.path.join(cwd, "src"), exist_ok=True)
    with open(os.path.join(cwd, "src", "lib.rs"), "w") as f:
        f.write(lib)


# --------------------------------------------------------------------------
# running kani
# --------------------------------------------------------------------------

def run_capped(cmd, cwd, mem_kib, timeout_s, logf):
    """Run under an address-space cap; output to logf; returns exit code (124 on time-out)."""
    sh = f"ulimit -v {mem_kib}; exec " + " ".join(shquote(c) for c in cmd)
    with open(logf, "w") as lf:
        p = subprocess.Popen(["bash", "-c", sh], cwd=cwd, env=ENV, stdout=lf, stderr=subprocess.STDOUT,
                             start_new_session=True)
        try:
            return p.wait(timeout=timeout_s)
        except subprocess.TimeoutExpired:
            try:
                os.killpg(p.pid, 9)
            except ProcessLookupError:
                pass
            p.wait()
            return 124


def shquote(s):
    if re.match(r"^[\w@%+=:,./-]+$", s):
        return s
    return "'" + s.replace("'", "'\\''") + "'"


LOOP_TABLES = {}


def resolve_unwindset(h, build, workdir, bumps=None):
    """`// @unwindset <substring of pretty function name>:<N> ...` -> CBMC loop ids. Kani only offers one global
    unwinding bound per harness; nested library loops (memchr inside split inside the parser's own loop) then
    multiply. The ids are read from the harness's goto binary (goto-instrument --show-loops), never hard-coded."""
    specs = []
    for line in h.meta.get("unwindset", []):
        for tok in line.split():
            pat, _, n = tok.rpartition(":")
            specs.append((pat, int(n)))
    cmd = ["cargo", "kani"] + build.lib_flag + ["-Z", "stubbing", "-Z", "unstable-options", "--only-codegen",
           "--target-dir", build.kani_target, "--exact", "--harness", h.full]
    logf = os.path.join(workdir, f"codegen-{h.name}.log")
    run_capped(cmd, build.cwd, TIER_CAPS["thorough"][1], 1500, logf)
    cands = []
    for root, _dirs, fns in os.walk(os.path.join(build.kani_target, "kani")):
        for fn in fns:
            if fn.endswith(".out") and not fn.endswith(".symtab.out") and fn.endswith(h.name + ".out"):
                cands.append(os.path.join(root, fn))
    if not cands:
        raise Inconclusive(f"{h.name}: no goto binary found to resolve @unwindset (see {logf})")
    gb = max(cands, key=os.path.getmtime)
    out = subprocess.run(["goto-instrument", "--show-loops", gb], capture_output=True, text=True).stdout
    ids = []
    lines = out.splitlines()
    for i, l in enumerate(lines):
        m = re.match(r"^Loop (\S+):$", l)
        if m and i + 1 < len(lines):
            ids.append((m.group(1), lines[i + 1]))
    chosen = []
    # `// @unwindloop <n> <source text>`: the loop that starts on the line of the target file containing that text
    for line in h.meta.get("unwindloop", []):
        n, _, text = line.partition(" ")
        src = open(os.path.join(OVERLAY, h.target)).read().split("// ---- appended by /verif")[0].splitlines()
        where = [i + 1 for i, l in enumerate(src) if text.strip() in l]
        if len(where) != 1:
            raise Inconclusive(f"{h.name}: @unwindloop text `{text.strip()}` occurs {len(where)} times in {h.target}")
        base = os.path.basename(h.target)
        hit = [lid for lid, desc in ids if re.search(rf"{re.escape(base)} line {where[0]} ", desc)]
        if not hit:
            raise Inconclusive(f"{h.name}: no loop starts at {h.target}:{where[0]} (`{text.strip()}`)")
        chosen += [f"{lid}:{int(n)}" for lid in hit]
    for pat, n in specs:
        if re.search(r"#\d+$", pat):
            # <function substring>#<n>: loop number n of the functions whose pretty name contains the substring
            fnpat, num = pat.rsplit("#", 1)
            hit = [lid for lid, desc in ids if lid.endswith("." + num) and fnpat in re.sub(r"<[^<>]*>", "", re.sub(r"<[^<>]*>", "", desc)).replace(" ", "")]
            if not hit and re.match(r"^[a-z_]+$", fnpat):
                hit = [f"{fnpat}.{num}"]        # C library builtins (memcmp, memcpy ...) are linked in by CBMC itself
        elif pat.endswith("@outer"):
            # the loop of that function that comes first in the source (its outermost loop), whatever CBMC numbers it
            fn = pat[:-len("@outer")]
            cand = []
            for lid, desc in ids:
                lm = re.search(r" line (\d+) ", desc)
                if fn in desc and lm:
                    cand.append((int(lm.group(1)), lid))
            hit = [min(cand)[1]] if cand else []
        elif re.search(r"\.\d+$", pat):
            hit = [lid for lid, desc in ids if lid.endswith(pat)]      # exact loop, e.g. eval_chunk.0
        else:
            hit = [lid for lid, desc in ids if pat in desc or pat in lid]
        if not hit:
            raise Inconclusive(f"{h.name}: @unwindset pattern `{pat}` matches no loop of the current code")
        chosen += [f"{lid}:{n}" for lid in hit]
    LOOP_TABLES[h.full] = ids
    merged = {}
    for item in chosen:
        lid, _, n = item.rpartition(":")
        merged[lid] = max(int(n), merged.get(lid, 0))
    for lid, n in (bumps or {}).items():
        merged[lid] = max(n, merged.get(lid, 0))
    return ",".join(f"{k}:{v}" for k, v in merged.items())


def unwind_failures(h, out_json):
    """loop ids whose unwinding assertion failed in the last run of harness h (empty if none / no result)"""
    try:
        d = json.load(open(out_json))
    except Exception:
        return []
    ids = LOOP_TABLES.get(h.full, [])
    out = []
    for r in d.get("verification_results", {}).get("results", []):
        if r.get("harness_id") != h.full:
            continue
        for c in r.get("checks") or []:
            if c.get("category") == "unwind" and c.get("status") == "Failure":
                m = re.search(r"loop (\d+)", c.get("description", ""))
                if not m:
                    continue
                fn, n = c.get("function", ""), m.group(1)
                hit = [lid for lid, desc in ids if lid.endswith("." + n) and desc.rstrip().endswith("function " + fn)]
                if not hit and "::" not in fn:
                    hit = [f"{fn}.{n}"]
                out += hit
    return out


def kani_verify(harnesses, tier, workdir, build=None, solver=None):
    build = build or Build("O")
    special = [h for h in harnesses if h.meta.get("unwindset") or h.meta.get("unwindloop")]
    if special and len(harnesses) > 1:
        # harnesses with per-loop bounds need their own invocation (--cbmc-args applies to the whole run)
        plain = [h for h in harnesses if h not in special]
        merged = {"verification_results": {"results": []}, "cbmc": []}
        rc_all, logs = 0, []
        groups = ([plain] if plain else []) + [[h] for h in special]
        # the invocations run concurrently: cargo serialises their (incremental, seconds-long) compile phases on
        # the target-dir lock, the CBMC phases overlap
        from concurrent.futures import ThreadPoolExecutor
        with ThreadPoolExecutor(max_workers=max(1, min(JOBS, len(groups)))) as ex:
            futs = [ex.submit(kani_verify, g, tier, os.path.join(workdir, f"g{gi}"), build) for gi, g in enumerate(groups)]
            outs = [f.result() for f in futs]
        for rc, oj, lf in outs:
            rc_all = rc_all or rc
            logs.append(lf)
            if os.path.exists(oj):
                try:
                    d = json.load(open(oj))
                    merged["verification_results"]["results"] += d.get("verification_results", {}).get("results", [])
                    merged["cbmc"] += d.get("cbmc", [])
                except Exception:
                    pass
        tag = "" if build.mode == "O" else "-" + build.name
        out_json = os.path.join(workdir, f"kani{tag}.json")
        json.dump(merged, open(out_json, "w"))
        logf = os.path.join(workdir, f"kani{tag}.log")
        with open(logf, "w") as f:
            for lf in logs:
                f.write(open(lf, errors="replace").read())
        return rc_all, out_json, logf
    os.makedirs(workdir, exist_ok=True)
    per_to, mem = TIER_CAPS[tier]
    per_to = max([per_to] + [h.timeout for h in harnesses if h.timeout])
    tag = "" if build.mode == "O" else "-" + build.name
    out_json = os.path.join(workdir, f"kani{tag}.json")
    if os.path.exists(out_json):
        os.unlink(out_json)
    # Kani refuses --concrete-playback together with --jobs > 1: single-harness invocations ask for the concrete
    # tests up front (no second run needed on a failure), parallel groups fall back to a second run
    cp = []  # (asking for concrete tests up front made heavy single-harness runs time out; they are generated on demand)
    cmd = ["cargo", "kani"] + build.lib_flag + ["-Z", "stubbing", "-Z", "unstable-options"] + cp + [
           "--target-dir", build.kani_target, "--exact", "--output-format", "terse",
           "--harness-timeout", f"{per_to}s", "--export-json", out_json,
           "-j", str(max(1, min(JOBS, len(harnesses))))]
    for h in harnesses:
        cmd += ["--harness", h.full]
    if solver:
        cmd += ["--solver", solver]
    logf = os.path.join(workdir, f"kani{tag}.log")
    waves = (len(harnesses) + JOBS - 1) // JOBS
    if not special:
        rc = run_capped(cmd, build.cwd, mem, 900 + per_to * waves + 120, logf)
        return rc, out_json, logf
    # per-loop bounds: start from the annotated ones; if the CURRENT code needs more iterations somewhere (e.g. an edit
    # added a loop), double exactly the loops whose unwinding assertion failed and run again (at most 5 rounds), so
    # that a changed tree is explored rather than dismissed as "bound too small"
    h = special[0]
    bumps = {}
    rc = 1
    for rnd in range(6):
        us = resolve_unwindset(h, build, workdir, bumps)
        if os.path.exists(out_json):
            os.unlink(out_json)
        rc = run_capped(cmd + ["--cbmc-args", "--unwindset", us], build.cwd, mem, 900 + per_to + 120, logf)
        failing = unwind_failures(h, out_json)
        if not failing:
            break
        cur = dict(x.rsplit(":", 1) for x in us.split(",") if x)
        attr = re.search(r"kani::unwind\((\d+)\)", " ".join(h.attrs))
        base = int(attr.group(1)) if attr else 2
        for lid in failing:
            bumps[lid] = 2 * int(cur.get(lid, base))
        log(f"      {h.name}: unwinding bound too small for {len(set(failing))} loop(s) of the current code; deepening (round {rnd + 1})")
    h.meta["deepened"] = [f"{k}:{v}" for k, v in bumps.items()]
    return rc, out_json, logf


def classify(h, res, stats, logtext):
    """-> dict(status=discharged|inconclusive|counterexample, ...) from Kani's JSON for one harness."""
    r = {"harness": h.full, "status": None, "reason": None, "failed": [], "checks_total": 0, "checks_passed": 0,
         "covers_total": 0, "covers_satisfied": 0, "cbmc": stats or {}}
    if res is None:
        r["status"] = "inconclusive"
        r["reason"] = "no result for this harness in Kani's output (time-out, memory cap or build error)"
        return r
    checks = res.get("checks") or []
    unwind_fail = False
    unsupported = False
    for c in checks:
        cat = c.get("category", "")
        st = c.get("status", "")
        if cat == "cover":
            r["covers_total"] += 1
            if st.lower() == "satisfied":
                r["covers_satisfied"] += 1
            continue
        r["checks_total"] += 1
        if st.lower() == "success":
            r["checks_passed"] += 1
        elif st.lower() == "failure":
            if cat == "unwind":
                unwind_fail = True
            elif cat in ("unsupported_construct", "unsupported"):
                unsupported = True
                r["failed"].append(c)
            else:
                r["failed"].append(c)
    if not checks:
        r["status"] = "inconclusive"
        r["reason"] = f"harness status {res.get('status')} without check results (time-out / memory cap / CBMC error)"
        return r
    if unwind_fail:
        r["status"] = "inconclusive"
        r["reason"] = "unwinding assertion failed: the stated loop bound does not cover the current code"
        return r
    real_fail = [c for c in r["failed"] if c.get("category") not in ("unsupported_construct", "unsupported")]
    if h.foreign:
        # re-used harness: the owning property's functional assertions are not this property's business
        real_fail = [c for c in real_fail if not re.match(r"^C\d+\.", check_identity(c))]
    if real_fail:
        r["status"] = "counterexample"
        r["failed"] = real_fail
        return r
    if unsupported:
        r["status"] = "inconclusive"
        r["reason"] = "an unsupported construct is reachable: " + "; ".join(
            c.get("description", "") for c in r["failed"])[:300]
        return r
    und = [c for c in checks if c.get("status", "").lower() in ("undetermined", "unreachable") and c.get("category") != "cover"]
    if str(res.get("status", "")).lower() != "success":
        r["status"] = "inconclusive"
        r["reason"] = f"Kani status {res.get('status')}"
        return r
    if r["covers_total"] == 0 or r["covers_satisfied"] < r["covers_total"]:
        r["status"] = "inconclusive"
        r["reason"] = (f"vacuity witness not satisfied ({r['covers_satisfied']}/{r['covers_total']} covers): "
                       "the harness does not reach its assertions on the current code")
        return r
    if r["checks_total"] == 0:
        r["status"] = "inconclusive"
        r["reason"] = "no assertion left after reachability slicing"
        return r
    r["status"] = "discharged"
    r["undetermined"] = len(und)
    return r


def check_identity(c):
    """Stable identity of a failed check: the assertion label if it looks like one of ours, otherwise
    (function, description) -- never a line number."""
    d = (c.get("description") or "").strip().strip('"')
    m = re.match(r"^(C\d+\.[\w.]+)", d)
    if m:
        return m.group(1)
    return f"{c.get('function', '?')} :: {d}"


# --------------------------------------------------------------------------
# replay
# --------------------------------------------------------------------------

def parse_playback_tests(text, harness_full):
    tests = []
    for m in re.finditer(r"Concrete playback unit test for `([^`]+)`:\s*```\n(.*?)```", text, re.S):
        if m.group(1) != harness_full:
            continue
        body = m.group(2)
        body = "\n".join(re.sub(r"^Thread \d+: ", "", l) for l in body.splitlines()) + "\n"
        km = re.search(r"/// Check for `(\w+)`: \"(.*)\"\s*$", body, re.M)
        kind = km.group(1) if km else "?"
        desc = km.group(2).strip('"') if km else "?"
        fm = re.search(r"fn (kani_concrete_playback_\w+)\(", body)
        tests.append({"kind": kind, "desc": desc, "name": fm.group(1) if fm else None, "code": body})
    return tests


def gen_playback(h, tier, workdir, main_log_text=""):
    # the main run already asks Kani for concrete tests; a second run is only the fall-back
    tests = parse_playback_tests(main_log_text, h.full)
    if any(t["name"] for t in tests):
        return tests
    build = Build(h.mode)
    per_to, mem = TIER_CAPS[tier]
    if h.timeout:
        per_to = max(per_to, h.timeout)
    cmd = ["cargo", "kani"] + build.lib_flag + ["-Z", "stubbing", "-Z", "unstable-options", "-Z", "concrete-playback",
           "--concrete-playback=print", "--target-dir", build.kani_target, "--exact", "--harness", h.full,
           "--harness-timeout", f"{2 * per_to}s"]
    if h.meta.get("unwindset") or h.meta.get("unwindloop"):
        bumps = dict((x.rsplit(":", 1)[0], int(x.rsplit(":", 1)[1])) for x in h.meta.get("deepened", []))
        cmd += ["--cbmc-args", "--unwindset", resolve_unwindset(h, build, workdir, bumps)]
    logf = os.path.join(workdir, f"playback-gen-{h.name}.log")
    run_capped(cmd, build.cwd, mem, 900 + 2 * per_to + 120, logf)
    text = open(logf, errors="replace").read()
    return parse_playback_tests(text, h.full)


def insert_tests(h, tests):
    p = os.path.join(OVERLAY, h.target)
    s = open(p).read()
    marker = "// @playback"
    modstart = s.rfind(f"mod {h.module.split('::')[-1]}")
    i = s.find(marker, modstart)
    code = "\n".join(t["code"] for t in tests)
    if i < 0:
        raise Inconclusive(f"{h.file}: no `// @playback` marker inside the harness module")
    s = s[:i] + code + "\n" + s[i:]
    open(p, "w").write(s)
    if h.mode == "S:cut":
        # this scratch crate holds a COPY of the harness module (cut out of the overlay file): regenerate it
        gen_mode_cut(Build(h.mode).cwd)


def run_playback(test_name, release, workdir, mode="O"):
    build = Build(mode)
    env = dict(ENV)
    cmd = ["cargo", "kani", "playback", "-Z", "concrete-playback", "--lib"]
    if release:
        cmd.append("--release")
        env.update({"CARGO_PROFILE_RELEASE_LTO": "false", "CARGO_PROFILE_RELEASE_CODEGEN_UNITS": "16"})
    cmd += ["--", "--nocapture", test_name]
    logf = os.path.join(workdir, f"replay-{'release' if release else 'dev'}-{test_name[-12:]}.log")
    with open(logf, "w") as lf:
        p = subprocess.run(cmd, cwd=build.cwd, env=env, stdout=lf, stderr=subprocess.STDOUT)
    text = open(logf, errors="replace").read()
    m = re.search(r"test result: (\w+)\. (\d+) passed; (\d+) failed", text)
    if not m:
        # the test process died (e.g. abort while unwinding) after the harness panicked: that is still a reproduction
        if re.search(r"panicked at .*\n", text) and "running 1 test" in text:
            return "reproduced", logf
        return "build-error", logf
    if int(m.group(2)) + int(m.group(3)) != 1:
        return "not-run", logf
    return ("reproduced" if int(m.group(3)) == 1 else "not-reproduced"), logf


# --------------------------------------------------------------------------
# main
# --------------------------------------------------------------------------

def setup():
    """Build the Kani dependency cache and the native playback cache (see setup.sh)."""
    os.makedirs(CACHE, exist_ok=True)
    files, allh = load_property("C42")
    h = [x for x in allh if x.name == "workers_never_exceed_work_or_pool"][0]
    workdir = os.path.join(os.path.dirname(OVERLAY), "work-setup")
    os.makedirs(workdir, exist_ok=True)
    lockf = open(LOCK, "w")
    fcntl.flock(lockf, fcntl.LOCK_EX)
    make_overlay(files)
    t0 = time.time()
    rc, out_json, logf = kani_verify([h], "quick", workdir)
    log(f"[setup] kani cache built in {time.time() - t0:.0f}s (exit {rc})")
    if not os.path.exists(out_json):
        log(open(logf, errors="replace").read()[-3000:])
        return 1
    t0 = time.time()
    test = ("#[test]\nfn kani_concrete_playback_setup_probe() {\n    let concrete_vals: Vec<Vec<u8>> = vec![vec![3, 0, 0, 0, 0, 0, 0, 0], "
            "vec![8, 0, 0, 0, 0, 0, 0, 0]];\n    kani::concrete_playback_run(concrete_vals, workers_never_exceed_work_or_pool);\n}\n")
    insert_tests(h, [{"code": test}])
    o, lf = run_playback("kani_concrete_playback_setup_probe", False, workdir)
    log(f"[setup] playback cache built in {time.time() - t0:.0f}s ({o})")
    if o != "not-reproduced":
        log(open(lf, errors="replace").read()[-3000:])
        return 1
    # mode S scratch crate for row_group_pruning.rs (C05 composition): build its dependency caches too
    t0 = time.time()
    files5, allh5 = load_property("C05")
    make_overlay(files5)
    b = Build("S:rgp")
    b.prepare()
    hs5 = [x for x in allh5 if x.mode == "S:rgp"][:1]
    cmd = ["cargo", "kani"] + b.lib_flag + ["-Z", "stubbing", "-Z", "unstable-options", "--only-codegen",
           "--target-dir", b.kani_target, "--exact", "--harness", hs5[0].full]
    rc = run_capped(cmd, b.cwd, TIER_CAPS["thorough"][1], 1800, os.path.join(workdir, "setup-rgp.log"))
    log(f"[setup] mode-S (rgp) kani cache built in {time.time() - t0:.0f}s (exit {rc})")
    t0 = time.time()
    subprocess.run(["cargo", "kani", "playback", "-Z", "concrete-playback", "--lib", "--only-codegen"], cwd=b.cwd, env=ENV,
                   stdout=open(os.path.join(workdir, "setup-rgp-playback.log"), "w"), stderr=subprocess.STDOUT)
    log(f"[setup] mode-S (rgp) playback cache built in {time.time() - t0:.0f}s")
    return 0 if rc == 0 else 1


def main():
    if len(sys.argv) > 1 and sys.argv[1] == "--setup":
        return setup()
    ap = argparse.ArgumentParser()
    ap.add_argument("property")
    ap.add_argument("--tier", default=os.environ.get("VERIF_TIER", "quick"), choices=["quick", "thorough", "experimental"])
    ap.add_argument("--only", default=None, help="substring filter on harness names (debugging; evidence not written)")
    ap.add_argument("--replay", default=None, help="re-run a saved replay test file natively against /repo's tree")
    ap.add_argument("--keep", action="store_true")
    args = ap.parse_args()
    pid = args.property
    tier = args.tier
    seed = int(os.environ.get("VERIF_SEED", "0") or 0)
    t0 = time.time()

    files, allh = load_property(pid)
    if args.replay:
        return replay_saved(pid, files, allh, args.replay)
    hs = [h for h in allh if tier in h.tiers]
    if args.only:
        hs = [h for h in hs if args.only in h.name]
    if not hs:
        raise SystemExit(f"{pid}: no harness registered for tier {tier}")
    # VERIF_SEED only rotates the order in which harnesses are handed to Kani (DESIGN §2.2)
    k = seed % len(hs)
    hs = hs[k:] + hs[:k]

    os.makedirs(CACHE, exist_ok=True)
    workdir = os.path.join(os.path.dirname(OVERLAY), f"work-{pid}")
    os.makedirs(workdir, exist_ok=True)
    lockf = open(LOCK, "w")
    log(f"[{pid}] waiting for the build-cache lock")
    fcntl.flock(lockf, fcntl.LOCK_EX)
    results = []
    violations = []
    known_lines = []
    inconclusive = []
    replays = []
    try:
        make_overlay(files)
        log(f"[{pid}] tier={tier} harnesses={len(hs)} overlay={OVERLAY}")
        res_by, stats_by, logtext, all_logs = {}, {}, "", ""
        for mode in sorted({h.mode for h in hs}):
            build = Build(mode)
            build.prepare()
            group = [h for h in hs if h.mode == mode]
            rc, out_json, logf = kani_verify(group, tier, workdir, build)
            logtext = open(logf, errors="replace").read()
            all_logs += logtext
            data = None
            if os.path.exists(out_json):
                try:
                    data = json.load(open(out_json))
                except Exception:
                    data = None
            if data is None:
                errs = [i for i, l in enumerate(logtext.splitlines()) if l.startswith("error")]
                lines = logtext.splitlines()
                for i in errs[:6]:
                    log("\n".join(lines[i:i + 12]))
                if not errs:
                    log("\n".join(lines[-25:]))
                raise Inconclusive(f"Kani produced no result file for build mode {mode} (exit {rc}); build error, time-out or memory cap -- see {logf}")
            res_by.update({r["harness_id"]: r for r in data.get("verification_results", {}).get("results", [])})
            stats_by.update({c["harness_id"]: c.get("cbmc_stats", {}) for c in data.get("cbmc", [])})
        known = load_known()
        for h in hs:
            r = classify(h, res_by.get(h.full), stats_by.get(h.full), logtext)
            r["h"] = h
            results.append(r)
            log(f"[{pid}]   {h.name}: {r['status']}"
                + (f" ({r['reason']})" if r["reason"] else "")
                + (f" checks={r['checks_passed']}/{r['checks_total']} covers={r['covers_satisfied']}/{r['covers_total']}"
                   if r["status"] == "discharged" else ""))
        # ---- thorough tier: diff the verdict of a second SAT back end (kissat) on the cheap harnesses
        if tier == "thorough" and not args.only and os.environ.get("VERIF_SOLVER2", "kissat") != "none":
            cheap = [r["h"] for r in results if r["status"] == "discharged" and not r["h"].meta.get("unwindset")
                     and not r["h"].meta.get("unwindloop") and r["h"].mode == "O"
                     and float((r.get("cbmc") or {}).get("runtime_decision_procedure_s") or 0) < 60]
            if cheap:
                s2 = os.environ.get("VERIF_SOLVER2", "kissat")
                rc2, oj2, lf2 = kani_verify(cheap, tier, os.path.join(workdir, "solver2"), Build("O"), solver=s2)
                try:
                    d2 = json.load(open(oj2))
                    res2 = {x["harness_id"]: x for x in d2.get("verification_results", {}).get("results", [])}
                except Exception:
                    res2 = {}
                for r in results:
                    h = r["h"]
                    if h in cheap:
                        c2 = classify(h, res2.get(h.full), None, "")
                        r["solver2"] = {"solver": s2, "status": c2["status"]}
                        if c2["status"] == "counterexample":
                            r["status"] = "inconclusive"
                            r["reason"] = f"SAT back ends disagree: CaDiCaL discharged, {s2} reports a counterexample"
                        log(f"[{pid}]   {h.name}: second back end {s2}: {c2['status']}")
        # ---- counterexamples: replay natively, then decide
        for r in results:
            if r["status"] != "counterexample":
                if r["status"] == "inconclusive":
                    inconclusive.append(f"{r['h'].name}: {r['reason']}")
                continue
            h = r["h"]
            idents = sorted({check_identity(c) for c in r["failed"]})
            log(f"[{pid}]   {h.name}: candidate counterexample for {idents}")
            rp = {"harness": h.full, "failed_checks": idents, "replay": None}
            if h.replay.startswith("none"):
                rp["replay"] = {"mode": "not-replayable", "why": h.replay}
                reproduced = True
                # still ask CBMC for the concrete values of every kani::any() on the failing trace
                vals = [t for t in gen_playback(h, tier, workdir, all_logs) if t["kind"] != "cover"]
                rpath = save_replay(pid, h, [], r, note=h.replay, trace=vals)
            else:
                tests = gen_playback(h, tier, workdir, all_logs)
                fail_tests = [t for t in tests if t["kind"] != "cover" and t["name"]]
                if not fail_tests:
                    # Kani sometimes emits concrete tests only for the cover witnesses; they are concrete executions of
                    # the same harness, so one of them failing natively at the assertion is a reproduction as well
                    fail_tests = [t for t in tests if t["name"]]
                if not fail_tests:
                    # The solver's verdict stands (the same harness is discharged on the unchanged tree); only the
                    # extra native replay is unavailable because Kani could not emit a concrete test (typically the
                    # trace-producing re-run exceeds the cap). Reported as a violation, flagged as not replayed.
                    rp["replay"] = {"mode": "unavailable", "why": "Kani produced no concrete playback test for the failing check"}
                    rpath = save_replay(pid, h, [], r, note="replay unavailable: Kani produced no concrete playback test")
                    rp["path"] = rpath
                    replays.append(rp)
                    if h.finding and all(any(kf.get("property") == pid and kf.get("id") == h.finding and kf.get("harness") == h.name
                                             and re.search(kf.get("check", "$^"), i) for kf in known) for i in idents):
                        for kf in known:
                            if kf.get("property") == pid and kf.get("id") == h.finding and kf.get("harness") == h.name:
                                line = f"KNOWN-FINDING: property={pid} {kf['id']}: {kf['what']} [harness {h.name}]"
                                if line not in known_lines:
                                    known_lines.append(line)
                    else:
                        violations.append((h, idents, rpath))
                    continue
                insert_tests(h, fail_tests)
                reproduced = False
                outcomes = []
                for t in fail_tests:
                    o, lf = run_playback(t["name"], False, workdir, h.mode)
                    outcomes.append({"test": t["name"], "check": t["desc"], "dev": o})
                    if o == "reproduced":
                        reproduced = True
                    if tier == "thorough":
                        o2, lf2 = run_playback(t["name"], True, workdir, h.mode)
                        outcomes[-1]["release"] = o2
                        if o2 == "reproduced":
                            reproduced = True
                rp["replay"] = {"mode": "cargo kani playback (native)", "outcomes": outcomes}
                rpath = save_replay(pid, h, fail_tests, r, note=json.dumps(outcomes))
                if not reproduced:
                    inconclusive.append(
                        f"{h.name}: counterexample for {idents} did not reproduce natively ({outcomes}); "
                        "encoding or stub error in the harness, not reported as a violation")
                    replays.append(rp)
                    continue
            rp["path"] = rpath
            replays.append(rp)
            # known finding?
            unknown = []
            for ident in idents:
                ent = None
                if h.finding:
                    for kf in known:
                        if kf.get("property") == pid and kf.get("id") == h.finding and kf.get("harness") == h.name \
                                and re.search(kf.get("check", "$^"), ident):
                            ent = kf
                            break
                if ent:
                    line = f"KNOWN-FINDING: property={pid} {ent['id']}: {ent['what']} [harness {h.name}]"
                    if line not in known_lines:
                        known_lines.append(line)
                else:
                    unknown.append(ident)
            if unknown:
                violations.append((h, unknown, rpath))
    except Inconclusive as e:
        inconclusive.append(str(e))
    finally:
        if not args.keep:
            # remove appended harness text and generated tests; keep the directory for incremental builds
            pass
        fcntl.flock(lockf, fcntl.LOCK_UN)

    wall = time.time() - t0
    if not args.only and not os.environ.get("VERIF_NO_EVIDENCE"):
        write_evidence(pid, tier, seed, hs, results, replays, known_lines, violations, inconclusive, wall)
    for l in known_lines:
        log(l)
    if violations:
        for h, idents, rpath in violations:
            log(f"VIOLATION property={pid} replay={rpath}")
            log(f"  harness {h.full}: failed {idents}")
        return 1
    if inconclusive:
        for i in inconclusive:
            log(f"INCONCLUSIVE property={pid} {i}")
        return 2
    n = sum(1 for r in results if r["status"] == "discharged")
    log(f"[{pid}] OK: {n}/{len(results)} harnesses discharged within their stated bounds in {wall:.0f}s")
    return 0


def save_replay(pid, h, tests, r, note="", trace=None):
    d = os.path.join(VERIF, "replays", pid)
    os.makedirs(d, exist_ok=True)
    blob = "\n".join(t["code"] for t in tests) or json.dumps([check_identity(c) for c in r["failed"]])
    sha = hashlib.sha1((h.full + blob).encode()).hexdigest()[:8]
    path = os.path.join(d, f"{h.name}-{sha}.rs")
    with open(path, "w") as f:
        f.write(f"// replay for property {pid}, harness {h.full}\n")
        f.write(f"// harness file: {os.path.relpath(h.file, VERIF)}  target: {h.target}\n")
        f.write("// failed checks: " + "; ".join(sorted({check_identity(c) for c in r['failed']})) + "\n")
        for c in r["failed"]:
            loc = c.get("location", {})
            f.write(f"//   {c.get('category')}: {c.get('description')} in {c.get('function')} "
                    f"({loc.get('file')}:{loc.get('line')})\n")
        f.write(f"// native replay: {note}\n")
        f.write(f"// re-run: /verif/check {pid} --replay {path}\n")
        f.write(f"// @replay-harness {h.name}\n")
        for t in trace or []:
            f.write("// values of kani::any() in call order on the failing trace (not natively runnable):\n")
            f.write("".join("// " + l + "\n" for l in t["code"].splitlines()))
        for t in tests:
            f.write(t["code"])
            f.write("\n")
    return path


def replay_saved(pid, files, allh, path):
    text = open(path).read()
    hm = re.search(r"// @replay-harness (\w+)", text)
    if not hm:
        raise SystemExit("not a replay file written by this runner")
    h = [x for x in allh if x.name == hm.group(1)]
    if not h:
        raise SystemExit(f"harness {hm.group(1)} no longer exists")
    h = h[0]
    tests = []
    for m in re.finditer(r"(#\[test\]\s*fn (kani_concrete_playback_\w+)\(\).*?\n\})", text, re.S):
        tests.append({"code": m.group(1), "name": m.group(2), "kind": "assertion", "desc": ""})
    if not tests:
        log("replay file carries no concrete test (harness is not natively replayable); see its header")
        return 2
    os.makedirs(CACHE, exist_ok=True)
    workdir = os.path.join(os.path.dirname(OVERLAY), f"work-{pid}")
    os.makedirs(workdir, exist_ok=True)
    lockf = open(LOCK, "w")
    fcntl.flock(lockf, fcntl.LOCK_EX)
    make_overlay(files)
    Build(h.mode).prepare()
    insert_tests(h, tests)
    bad = 0
    for t in tests:
        o, lf = run_playback(t["name"], False, workdir, h.mode)
        log(f"replay {t['name']}: {o} (log {lf})")
        if o == "reproduced":
            bad += 1
    if bad:
        log(f"VIOLATION property={pid} replay={path}")
        return 1
    return 0


def write_evidence(pid, tier, seed, hs, results, replays, known_lines, violations, inconclusive, wall):
    os.makedirs(os.path.join(VERIF, "evidence"), exist_ok=True)
    samples = []
    functions = []
    stubs = []
    assumes = []
    obligations = discharged = 0
    symex = solver = 0.0
    nontrivial = 0
    for r in results:
        h = r["h"]
        st = r.get("cbmc") or {}
        obligations += r["checks_total"]
        discharged += r["checks_passed"]
        symex += float(st.get("runtime_symex_s") or 0)
        solver += float(st.get("runtime_decision_procedure_s") or st.get("runtime_solver_s") or 0)
        if r["status"] == "discharged" and r["covers_total"] > 0 and r["checks_total"] > 0:
            nontrivial += 1
        for f in h.meta.get("encodes", []):
            for x in f.split(","):
                x = x.strip()
                if x and x not in functions:
                    functions.append(x)
        hstubs = [a for a in h.attrs if "kani::stub" in a]
        for a in hstubs:
            if a not in stubs:
                stubs.append(a)
        for a in h.assumes:
            assumes.append(f"{h.name}: kani::assume({a})")
        samples.append({
            "harness": h.full,
            "file": os.path.relpath(h.file, VERIF),
            "appended_to": h.target,
            "status": r["status"],
            "reason": r["reason"],
            "bounds": h.meta.get("bounds", []),
            "oracle": h.meta.get("oracle", []),
            "outside": h.meta.get("out", []),
            "attributes": h.attrs,
            "assumes": h.assumes,
            "covers": h.covers,
            "checks": {"total": r["checks_total"], "passed": r["checks_passed"],
                       "failed": [check_identity(c) for c in r["failed"]]},
            "covers_satisfied": f"{r['covers_satisfied']}/{r['covers_total']}",
            "cbmc": {k: st.get(k) for k in ("runtime_symex_s", "runtime_solver_s", "runtime_decision_procedure_s",
                                            "size_program_expression", "vccs_generated", "vccs_remaining")
                     if k in st},
            "finding_harness_for": h.finding,
            "second_solver": r.get("solver2"),
        })
    ev = {
        "property_id": pid,
        "tier": tier,
        "seed": seed,
        "level": "model_checking",
        "coverage": {
            "evaluations": len(results),
            "distinct_nontrivial": nontrivial,
            "rule": ("one evaluation = one Kani proof harness (a bounded symbolic execution of the real functions, decided by "
                     "CBMC + CaDiCaL over ALL inputs within the harness's stated bounds); a harness counts as distinct and "
                     "non-trivial when it is a distinct function, was discharged, every kani::cover! vacuity witness in it was "
                     "SATISFIED and at least one assertion/safety check remained after slicing (all read from Kani's JSON export)"),
            "samples": samples,
            "obligations": obligations,
            "discharged": discharged,
            "obligations_note": ("obligations = assertion and safety checks Kani generated for the harnesses (after slicing); discharged = "
                                 "those CBMC reported SUCCESS; the difference are checks on code that is UNREACHABLE within the bounds "
                                 "(e.g. drop glue of variants never built) or, for a finding harness, the failed check"),
            "checker_cmd": "cargo kani --lib -Z stubbing --exact --harness <h> (Kani 0.68.0, CBMC 6.11.0, CaDiCaL; unwinding assertions on)",
            "functions_encoded": functions,
            "stubs": stubs,
            "assumes": assumes,
            "symex_time_s": round(symex, 3),
            "solver_time_s": round(solver, 3),
            "counterexamples": replays,
            "known_findings_reported": known_lines,
            "inconclusive": inconclusive,
            "exhaustive": False,
            "trusted_base": ["Kani 0.68 MIR->goto translation and std models", "CBMC 6.11 symbolic execution + bit-blasting",
                             "CaDiCaL", "harness-side reference oracles (printed per harness)"],
            "source_tree": REPO + " working tree (rsync'd into a scratch overlay at the start of this run)",
        },
        "assumptions": [
            "every result is bounded: it holds for all inputs within the bounds listed per harness and says nothing outside them",
            "Kani models the dev profile (overflow checks on); release-only behaviour is reached only through native replay",
        ] + assumes,
        "wall_s": round(wall, 2),
        "violations": len(violations),
    }
    with open(os.path.join(VERIF, "evidence", f"{pid}.json"), "w") as f:
        json.dump(ev, f, indent=1)
        f.write("\n")


if __name__ == "__main__":
    sys.exit(main())
