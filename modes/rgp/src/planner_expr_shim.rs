// The subset of `planner::Expr` that row_group_pruning.rs can meet, with the real variant and field names.
// BinaryOp / UnaryOp / ScalarValue / Column above this line are copied VERBATIM from /repo's current
// src/planner/logical_expr.rs and src/planner/schema.rs by the runner on every run.
// repr(u8): an explicit tag byte instead of a niche-packed discriminant, so that CBMC reads the variant of a
// concretely shaped predicate as a constant and does not explore the arms of other variants
#[derive(Debug, Clone, PartialEq)]
#[repr(u8)]
pub enum Expr {
    Column(Column),
    Literal(ScalarValue),
    BinaryExpr { left: Box<Expr>, op: BinaryOp, right: Box<Expr> },
    UnaryExpr { op: UnaryOp, expr: Box<Expr> },
    InList { expr: Box<Expr>, list: Vec<Expr>, negated: bool },
    Between { expr: Box<Expr>, low: Box<Expr>, high: Box<Expr>, negated: bool },
    Wildcard,
}

impl Column {
    pub fn new(name: impl Into<String>) -> Self {
        Self { relation: None, name: name.into() }
    }
}
