//! Environment shim for `parquet`, used only by the mode-S check of row_group_pruning.rs.
//! `file::statistics` is the REAL parquet-rs module (re-exported); `file::metadata` replaces the footer
//! containers by plain structs with the same accessor names, because building real `RowGroupMetaData`
//! (schema descriptors, Arc'd type trees) is what made the in-crate composition harness exceed 40 min.
//! Contract assumed (parquet-rs): a row group has a fixed list of column chunks, each with optional statistics.
/// real parquet-rs value types (ByteArray ...) used when harnesses build BYTE_ARRAY statistics
pub mod data_type {
    pub use real_parquet::data_type::*;
}
pub mod file {
    pub mod statistics {
        pub use real_parquet::file::statistics::*;
    }
    pub mod metadata {
        use super::statistics::Statistics;

        #[derive(Debug, Clone)]
        pub struct ColumnChunkMetaData {
            stats: Option<Statistics>,
        }
        impl ColumnChunkMetaData {
            pub fn statistics(&self) -> Option<&Statistics> {
                self.stats.as_ref()
            }
        }

        #[derive(Debug, Clone)]
        pub struct RowGroupMetaData {
            cols: Vec<ColumnChunkMetaData>,
            num_rows: i64,
        }
        impl RowGroupMetaData {
            pub fn verif_new(stats: Vec<Option<Statistics>>, num_rows: i64) -> Self {
                Self { cols: stats.into_iter().map(|s| ColumnChunkMetaData { stats: s }).collect(), num_rows }
            }
            pub fn num_columns(&self) -> usize {
                self.cols.len()
            }
            pub fn column(&self, i: usize) -> &ColumnChunkMetaData {
                &self.cols[i]
            }
            pub fn columns(&self) -> &[ColumnChunkMetaData] {
                &self.cols
            }
            pub fn num_rows(&self) -> i64 {
                self.num_rows
            }
        }

        #[derive(Debug, Clone)]
        pub struct ParquetMetaData {
            rgs: Vec<RowGroupMetaData>,
        }
        impl ParquetMetaData {
            pub fn verif_new(rgs: Vec<RowGroupMetaData>) -> Self {
                Self { rgs }
            }
            pub fn num_row_groups(&self) -> usize {
                self.rgs.len()
            }
            pub fn row_group(&self, i: usize) -> &RowGroupMetaData {
                &self.rgs[i]
            }
            pub fn row_groups(&self) -> &[RowGroupMetaData] {
                &self.rgs
            }
        }
    }
}
