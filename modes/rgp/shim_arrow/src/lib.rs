//! Environment shim for `arrow::datatypes`, used only by the mode-S check of row_group_pruning.rs:
//! a schema is an ordered list of named, typed fields (no metadata HashMaps, whose RandomState needs OS randomness).
pub mod datatypes {
    use std::sync::Arc;

    #[derive(Debug, Clone, PartialEq, Eq, Hash)]
    pub enum DataType {
        Null,
        Boolean,
        Int8,
        Int16,
        Int32,
        Int64,
        UInt8,
        UInt16,
        UInt32,
        UInt64,
        Float32,
        Float64,
        Utf8,
        LargeUtf8,
        Date32,
        Date64,
    }

    #[derive(Debug, Clone, PartialEq, Eq, Hash)]
    pub struct Field {
        name: String,
        data_type: DataType,
        nullable: bool,
    }
    impl Field {
        pub fn new(name: impl Into<String>, data_type: DataType, nullable: bool) -> Self {
            Self { name: name.into(), data_type, nullable }
        }
        pub fn name(&self) -> &String {
            &self.name
        }
        pub fn data_type(&self) -> &DataType {
            &self.data_type
        }
        pub fn is_nullable(&self) -> bool {
            self.nullable
        }
    }
    pub type FieldRef = Arc<Field>;

    #[derive(Debug, Clone, PartialEq, Eq, Hash)]
    pub struct Fields(Vec<FieldRef>);
    impl std::ops::Deref for Fields {
        type Target = [FieldRef];
        fn deref(&self) -> &[FieldRef] {
            &self.0
        }
    }

    #[derive(Debug, Clone, PartialEq, Eq)]
    pub struct Schema {
        fields: Fields,
    }
    impl Schema {
        pub fn new(fields: Vec<Field>) -> Self {
            Self { fields: Fields(fields.into_iter().map(Arc::new).collect()) }
        }
        pub fn fields(&self) -> &Fields {
            &self.fields
        }
        pub fn field(&self, i: usize) -> &Field {
            &self.fields[i]
        }
    }
    pub type SchemaRef = Arc<Schema>;
}
