/// ENVIRONMENT STUB for `std::vec::Vec` inside the body of `pass2` only (`type Vec<T> = VecShim<T>;` as that function's first line): a fixed-capacity
/// array with a length. The pass-2 block uses exactly `Vec::with_capacity`, `push`, `len` and `for x in &v`; their
/// contract (push appends at position len, iteration yields positions 0..len in order) is what this implements.
/// Reason: the real Vec's heap buffer written at a symbolic position (a `continue` guards the push) sent CBMC's array
/// post-processing past 12 GB; an array of structs in a local is bit-blasted directly.
pub const VEC_SHIM_CAP: usize = 6;
pub struct VecShim<T> {
    items: [Option<T>; VEC_SHIM_CAP],
    len: usize,
}
impl<T> VecShim<T> {
    pub fn with_capacity(_n: usize) -> Self {
        VecShim { items: [None, None, None, None, None, None], len: 0 }
    }
    pub fn new() -> Self {
        Self::with_capacity(0)
    }
    pub fn push(&mut self, x: T) {
        assert!(self.len < VEC_SHIM_CAP, "vec_shim: capacity of the stub exceeded (bound of the harness, not of the code)");
        self.items[self.len] = Some(x);
        self.len += 1;
    }
    pub fn len(&self) -> usize {
        self.len
    }
    pub fn is_empty(&self) -> bool {
        self.len == 0
    }
    pub fn get(&self, i: usize) -> Option<&T> {
        if i < self.len { self.items[i].as_ref() } else { None }
    }
}
pub struct VecShimIter<'a, T> {
    v: &'a VecShim<T>,
    i: usize,
}
impl<'a, T> Iterator for VecShimIter<'a, T> {
    type Item = &'a T;
    fn next(&mut self) -> Option<&'a T> {
        let r = self.v.get(self.i);
        if r.is_some() {
            self.i += 1;
        }
        r
    }
}
impl<'a, T> IntoIterator for &'a VecShim<T> {
    type Item = &'a T;
    type IntoIter = VecShimIter<'a, T>;
    fn into_iter(self) -> VecShimIter<'a, T> {
        VecShimIter { v: self, i: 0 }
    }
}
